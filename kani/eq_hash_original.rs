// K2 (C14): OriginalSource - eq/hash/clone are functions of (value, name); observers do not change them.
use super::*;
use std::hash::{Hash, Hasher};
struct Fold(u64);
impl Hasher for Fold {
  fn finish(&self) -> u64 { self.0 }
  fn write(&mut self, bytes: &[u8]) {
    let mut i = 0;
    while i < bytes.len() { self.0 = self.0.wrapping_mul(31).wrapping_add(bytes[i] as u64); i += 1; }
  }
}
fn h<T: Hash>(t: &T) -> u64 { let mut f = Fold(7); t.hash(&mut f); f.finish() }

#[kani::proof]
#[kani::unwind(34)]
fn original_eq_hash_clone() {
  let k: u8 = kani::any(); kani::assume(k < 3);
  let a = OriginalSource::new("a\nb", "f.js");
  let b = match k { 0 => OriginalSource::new("a\nb", "f.js"), 1 => OriginalSource::new("a\nb", "g.js"), _ => OriginalSource::new("a\nc", "f.js") };
  let h0 = h(&a);
  if kani::any() { let _ = a.source(); }
  if kani::any() { let _ = a.size(); }
  if kani::any() { let _ = b.buffer(); }
  assert!((a == b) == (k == 0));
  assert!((a == b) == (a.value == b.value && a.name == b.name));
  assert!(h(&a) == h0);
  if a == b { assert!(h(&a) == h(&b)); }
  let c = a.clone();
  assert!(c == a);
  assert!(h(&c) == h0);
}
