// K2 (C14): equality / hashing / cloning of the leaf types in raw_source.rs are functions of the abstract value
// in every reachable cache state.  Cache histories are symbolic (one boolean per observer call per operand);
// data comes from a small concrete catalogue (symbolic strings are intractable for CBMC here) - exhaustive in
// cache histories, sampled in data.
use super::*;
use std::hash::{Hash, Hasher};

struct Fold(u64);
impl Hasher for Fold {
  fn finish(&self) -> u64 { self.0 }
  fn write(&mut self, bytes: &[u8]) {
    let mut i = 0;
    while i < bytes.len() { self.0 = self.0.wrapping_mul(31).wrapping_add(bytes[i] as u64); i += 1; }
  }
}
fn h<T: Hash>(t: &T) -> u64 { let mut f = Fold(7); t.hash(&mut f); f.finish() }

fn observe_buf(s: &RawBufferSource, k: u8) {
  match k { 1 => { let _ = s.source(); } 2 => { let _ = s.buffer(); } 3 => { let _ = s.size(); } 4 => { let _ = s.map(&MapOptions::default()); } _ => {} }
}

#[kani::proof]
#[kani::unwind(34)]
fn raw_buffer_eq_hash_clone() {
  let a = RawBufferSource::from(vec![97u8, 0xffu8]);
  let same: bool = kani::any();
  let b = RawBufferSource::from(vec![97u8, if same { 0xffu8 } else { 98u8 }]);
  let h0 = h(&a);
  let ka: u8 = kani::any(); kani::assume(ka < 5);
  let kb: u8 = kani::any(); kani::assume(kb < 5);
  observe_buf(&a, ka);
  observe_buf(&b, kb);
  kani::cover!(ka == 1 && kb == 0, "cache filled on one operand only");
  assert!((a == b) == (a.value == b.value));
  assert!((a == b) == same);
  assert!(h(&a) == h0);
  if a == b { assert!(h(&a) == h(&b)); }
  let c = a.clone();
  assert!(c == a && a == c);
  assert!(h(&c) == h0);
  assert!(c.value == a.value);
}

fn observe_raw(s: &RawSource, k: u8) {
  match k { 1 => { let _ = s.source(); } 2 => { let _ = s.buffer(); } 3 => { let _ = s.size(); } 4 => { let _ = s.is_buffer(); } _ => {} }
}
fn raw_from(k: u8) -> RawSource {
  match k {
    0 => RawSource::from(vec![97u8, 0xffu8]),
    1 => RawSource::from(vec![97u8, 98u8]),
    2 => RawSource::from("ab".to_string()),
    _ => RawSource::from_static("ab"),
  }
}
fn raw_source_pair(ia: u8, ib: u8) {
  let a = raw_from(ia);
  let b = raw_from(ib);
  let h0 = h(&a);
  let ka: u8 = kani::any(); kani::assume(ka < 5);
  let kb: u8 = kani::any(); kani::assume(kb < 5);
  observe_raw(&a, ka);
  observe_raw(&b, kb);
  kani::cover!(ka == 1 && kb == 0, "string view cached on one operand only");
  // abstract value: (variant, bytes); the two String spellings (owned / static) denote the same value
  let abs_eq = ia == ib || (ia >= 2 && ib >= 2);
  assert!((a == b) == abs_eq);
  assert!(h(&a) == h0);
  if a == b { assert!(h(&a) == h(&b)); }
  let c = a.clone();
  assert!(c == a && a == c);
  assert!(h(&c) == h0);
}
#[kani::proof]
#[kani::unwind(34)]
fn raw_source_eq_hash_clone_buf_buf_same() { raw_source_pair(0, 0) }
#[kani::proof]
#[kani::unwind(34)]
fn raw_source_eq_hash_clone_buf_buf_diff() { raw_source_pair(0, 1) }
#[kani::proof]
#[kani::unwind(34)]
fn raw_source_eq_hash_clone_str_static() { raw_source_pair(2, 3) }
#[kani::proof]
#[kani::unwind(34)]
fn raw_source_eq_hash_clone_buf_str() { raw_source_pair(1, 2) }

#[kani::proof]
#[kani::unwind(34)]
fn raw_string_eq_hash_clone() {
  let same: bool = kani::any();
  let a = RawStringSource::from("h\u{e9}".to_string());
  let b = if same { RawStringSource::from_static("h\u{e9}") } else { RawStringSource::from("he".to_string()) };
  let h0 = h(&a);
  if kani::any() { let _ = a.source(); }
  if kani::any() { let _ = b.buffer(); }
  assert!((a == b) == same);
  assert!(h(&a) == h0);
  if a == b { assert!(h(&a) == h(&b)); }
  let c = a.clone();
  assert!(c == a);
  assert!(h(&c) == h0);
}
