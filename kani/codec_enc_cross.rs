// Cross-checks of the Verus codec units on the compiled real code (thorough tier).
// encode_vlq over its FULL domain (loop bounded by operand width: at most 7 digits; unwinding assertions on => complete).
use super::*;

fn b64(i: u32) -> u8 {
  (if i < 26 { 65 + i } else if i < 52 { 97 + i - 26 } else if i < 62 { 48 + i - 52 } else if i == 62 { 43 } else { 47 }) as u8
}
#[kani::proof]
#[kani::unwind(9)]
fn encode_vlq_full_domain() {
  let a: u32 = kani::any();
  let b: u32 = kani::any();
  // precondition of the contract: |a - b| < 2^31 (so that the shift does not lose the top bit)
  kani::assume(if a >= b { a - b < 0x8000_0000 } else { b - a < 0x7fff_ffff });
  let mut out = Vec::new();
  encode_vlq(&mut out, a, b);
  // reference: little-endian base-32 digits of zz(a, b) with continuation bit 0x20
  let mut n: u64 = if a >= b { 2 * (a as u64 - b as u64) } else { 2 * (b as u64 - a as u64) + 1 };
  let mut i = 0;
  loop {
    let d = (n % 32) as u32;
    n /= 32;
    assert!(i < out.len());
    assert!(out[i] == b64(if n > 0 { d + 32 } else { d }));
    i += 1;
    if n == 0 { break; }
  }
  assert!(i == out.len());
}
