// K4 (C19): WithIndices::<&str>::substring reaches `str::get_unchecked` only with an in-range range whose ends lie on
// char boundaries.  Index pair symbolic over ALL of usize x usize; text from a fixed catalogue (bounded in the text).
use super::*;

fn check(t: &'static str) {
  let w = WithIndices::new(t);
  let a: usize = kani::any();
  let b: usize = kani::any();
  let r: &str = w.substring(a, b);
  // the result is a sub-slice of t aligned on char boundaries ...
  if !r.is_empty() {
    let off = r.as_ptr() as usize - t.as_ptr() as usize;
    assert!(off <= t.len() && off + r.len() <= t.len());
    assert!(t.is_char_boundary(off) && t.is_char_boundary(off + r.len()));
  }
  // ... and a second call (cache filled) answers the same
  let r2: &str = w.substring(a, b);
  assert!(r2.len() == r.len());
  kani::cover!(!r.is_empty(), "non-empty substring reachable");
}
#[kani::proof]
#[kani::unwind(12)]
fn substring_mixed_width() { check("a\u{e9}b\u{20ac}\n") }
#[kani::proof]
#[kani::unwind(12)]
fn substring_last_char_multibyte() { check("abc\u{e9}") }
#[kani::proof]
#[kani::unwind(12)]
fn substring_astral() { check("x\u{1F600}y") }
#[kani::proof]
#[kani::unwind(12)]
fn substring_ascii() { check("ab\n") }
#[kani::proof]
#[kani::unwind(12)]
fn substring_empty() {
  let w = WithIndices::new("");
  let a: usize = kani::any();
  let b: usize = kani::any();
  let r: &str = w.substring(a, b);
  assert!(r.is_empty());
}
