// K2 (C14): SourceMapSource - eq / hash / clone are functions of its fields; observers do not change them.
use super::*;
use std::hash::{Hash, Hasher};
struct Fold(u64);
impl Hasher for Fold {
  fn finish(&self) -> u64 { self.0 }
  fn write(&mut self, bytes: &[u8]) {
    let mut i = 0;
    while i < bytes.len() { self.0 = self.0.wrapping_mul(31).wrapping_add(bytes[i] as u64); i += 1; }
  }
}
fn h<T: Hash>(t: &T) -> u64 { let mut f = Fold(7); t.hash(&mut f); f.finish() }
fn mk(k: u8) -> SourceMapSource {
  let map = SourceMap::new(if k == 1 { "AAAA,CAAC" } else { "AAAA" }, vec!["a.js".to_string()], vec![], vec![]);
  SourceMapSource::new(SourceMapSourceOptions {
    value: if k == 2 { "ab" } else { "abc" },
    name: if k == 3 { "y.js" } else { "x.js" },
    source_map: map,
    original_source: if k == 5 { Some("o".to_string()) } else { None },
    inner_source_map: None,
    remove_original_source: k == 4,
  })
}
#[kani::proof]
#[kani::unwind(40)]
fn source_map_source_eq_hash_clone() {
  let k: u8 = kani::any(); kani::assume(k < 6);
  let a = mk(0);
  let b = mk(k);
  let h0 = h(&a);
  if kani::any() { let _ = a.source(); }
  if kani::any() { let _ = a.size(); }
  if kani::any() { let _ = b.buffer(); }
  assert!((a == b) == (k == 0));
  assert!(h(&a) == h0);
  if a == b { assert!(h(&a) == h(&b)); }
  let c = a.clone();
  assert!(c == a);
  assert!(h(&c) == h0);
}
