// Cross-check of rule R1 (for -> loop/match) and of the decoder contract on the compiled, UN-REWRITTEN
// MappingsDecoder::next: first call on every ASCII string of LEN bytes against the byte-level reader (bounded in length).
use super::*;

fn tbl(c: u8) -> u8 {
  if (65..=90).contains(&c) { c - 65 } else if (97..=122).contains(&c) { c - 97 + 26 } else if (48..=57).contains(&c) { c - 48 + 52 }
  else if c == 43 { 62 } else if c == 47 { 63 } else if c == 44 { 0x40 } else if c == 59 { 0x41 } else { 0x42 }
}
fn first_vs_reader<const LEN: usize>() {
  let bytes: [u8; LEN] = kani::any();
  let mut k = 0;
  while k < LEN { kani::assume(bytes[k] < 128); k += 1; }
  let s = unsafe { std::str::from_utf8_unchecked(&bytes) };
  let mut d = MappingsDecoder::new(s);
  let mut data = [0u32, 0, 1, 0, 0];
  let (mut pos, mut val, mut vpos, mut line) = (0usize, 0i64, 0usize, 1u32);
  let mut first: Option<(u32, [u32; 5], usize)> = None;
  let mut i = 0;
  while i < LEN && first.is_none() {
    let v = tbl(bytes[i]);
    if v == 0x42 {
    } else if v & 0x40 != 0 {
      if pos == 1 || pos == 4 || pos == 5 { first = Some((line, data, pos)); }
      pos = 0;
      if v == 0x41 { line += 1; data[0] = 0; }
    } else if v & 0x20 == 0 {
      let cv = if vpos < 64 { val | ((v as i64) << vpos) } else { val };
      let fv = if cv & 1 != 0 { -(cv >> 1) } else { cv >> 1 };
      if pos < 5 { data[pos] = (data[pos] as i64 + fv) as u32; }
      pos += 1; val = 0; vpos = 0;
    } else if vpos < 64 { val |= ((v & 0x1f) as i64) << vpos; vpos += 5; }
    i += 1;
  }
  if first.is_none() && (pos == 1 || pos == 4 || pos == 5) { first = Some((line, data, pos)); }
  let r = d.next();
  match (r, first) {
    (None, None) => {}
    (Some(m), Some((l, dd, n))) => {
      assert!(m.generated_line == l && m.generated_column == dd[0]);
      match m.original {
        None => assert!(n == 1),
        Some(o) => {
          assert!(n >= 4 && o.source_index == dd[1] && o.original_line == dd[2] && o.original_column == dd[3]);
          assert!(o.name_index == if n == 5 { Some(dd[4]) } else { None });
        }
      }
    }
    _ => { assert!(false); }
  }
}
#[kani::proof]
#[kani::unwind(6)]
fn decoder_first_vs_reader_len4() { first_vs_reader::<4>() }
#[kani::proof]
#[kani::unwind(8)]
fn decoder_first_vs_reader_len6() { first_vs_reader::<6>() }
