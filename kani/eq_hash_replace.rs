// K2 (C14): ReplaceSource - eq and hash are functions of (inner, replacement list) in every cache state
// satisfying the lazy-sort invariant of K1 (is_sorted => sorted_index is the stable key order).
use super::*;
use crate::RawStringSource;
struct Fold(u64);
impl Hasher for Fold {
  fn finish(&self) -> u64 { self.0 }
  fn write(&mut self, bytes: &[u8]) {
    let mut i = 0;
    while i < bytes.len() { self.0 = self.0.wrapping_mul(31).wrapping_add(bytes[i] as u64); i += 1; }
  }
}
fn h<T: Hash>(t: &T) -> u64 { let mut f = Fold(7); t.hash(&mut f); f.finish() }

fn key(r: &Replacement) -> (u32, u32, ReplacementEnforce) { (r.start, r.end, r.enforce) }
fn is_stable_sorted(rs: &[Replacement], idx: &[usize]) -> bool {
  if idx.len() != rs.len() { return false; }
  let n = rs.len();
  let mut seen = [false; 4];
  let mut i = 0;
  while i < n {
    if idx[i] >= n || seen[idx[i]] { return false; }
    seen[idx[i]] = true;
    if i > 0 {
      let a = &rs[idx[i - 1]];
      let b = &rs[idx[i]];
      if key(a) > key(b) { return false; }
      if key(a) == key(b) && idx[i - 1] > idx[i] { return false; }
    }
    i += 1;
  }
  true
}
fn repls(variant: u8) -> Vec<Replacement> {
  let second = match variant {
    0 => Replacement::new(0, 1, String::new(), None, ReplacementEnforce::Normal),
    1 => Replacement::new(0, 1, String::new(), None, ReplacementEnforce::Pre), // enforce differs
    _ => Replacement::new(0, 2, String::new(), None, ReplacementEnforce::Normal), // range differs
  };
  vec![Replacement::new(1, 2, String::new(), None, ReplacementEnforce::Normal), second]
}
/// a state over the given replacements whose cache is ARBITRARY subject to the K1 invariant
fn warm(variant: u8) -> ReplaceSource<RawStringSource> {
  let a: usize = kani::any();
  let b: usize = kani::any();
  kani::assume(a < 2 && b < 2);
  let idx = if kani::any() { vec![a, b] } else { vec![] };
  let s = ReplaceSource {
    inner: Arc::new(RawStringSource::from_static("")),
    replacements: repls(variant),
    sorted_index: Mutex::new(idx),
    is_sorted: AtomicBool::new(kani::any()),
  };
  kani::assume(!s.is_sorted.load(Ordering::SeqCst) || is_stable_sorted(&s.replacements, &s.sorted_index.lock().unwrap()));
  s
}
fn cold(variant: u8) -> ReplaceSource<RawStringSource> {
  ReplaceSource { inner: Arc::new(RawStringSource::from_static("")), replacements: repls(variant), sorted_index: Mutex::new(Vec::new()), is_sorted: AtomicBool::new(false) }
}
fn pair(v: u8) {
  let a = warm(0);
  let b = cold(v);
  kani::cover!(a.is_sorted.load(Ordering::SeqCst), "sorted cache filled");
  kani::cover!(!a.is_sorted.load(Ordering::SeqCst), "sorted cache cold");
  let h_cold = h(&cold(0));
  assert!((a == b) == (v == 0));
  assert!(h(&a) == h_cold);
  if a == b { assert!(h(&a) == h(&b)); }
}
#[kani::proof]
#[kani::unwind(34)]
fn replace_eq_hash_same() { pair(0) }
#[kani::proof]
#[kani::unwind(34)]
fn replace_eq_hash_enforce_differs() { pair(1) }
#[kani::proof]
#[kani::unwind(34)]
fn replace_eq_hash_range_differs() { pair(2) }
