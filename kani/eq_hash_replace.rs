// K2 (C14): ReplaceSource - eq and hash are functions of (inner, replacement list) in every cache state
// satisfying the lazy-sort invariant of K1 (is_sorted => sorted_index is the stable key order).
use super::*;
use crate::RawStringSource;
// order-sensitive fold of the u32 writes only (start / end of each replacement, in hashing order); byte writes
// (strings, discriminants) are ignored to keep the CBMC formula small - enough to observe which replacements are
// hashed and in which order.
struct Fold(u64);
impl Hasher for Fold {
  fn finish(&self) -> u64 { self.0 }
  fn write(&mut self, _bytes: &[u8]) {}
  fn write_u32(&mut self, x: u32) { self.0 = self.0.wrapping_mul(3).wrapping_add(x as u64 + 1); }
}
fn h<T: Hash>(t: &T) -> u64 { let mut f = Fold(7); t.hash(&mut f); f.finish() }

fn key(r: &Replacement) -> (u32, u32, ReplacementEnforce) { (r.start, r.end, r.enforce) }
fn is_stable_sorted(rs: &[Replacement], idx: &[usize]) -> bool {
  if idx.len() != rs.len() { return false; }
  let n = rs.len();
  let mut seen = [false; 4];
  let mut i = 0;
  while i < n {
    if idx[i] >= n || seen[idx[i]] { return false; }
    seen[idx[i]] = true;
    if i > 0 {
      let a = &rs[idx[i - 1]];
      let b = &rs[idx[i]];
      if key(a) > key(b) { return false; }
      if key(a) == key(b) && idx[i - 1] > idx[i] { return false; }
    }
    i += 1;
  }
  true
}
fn repls(variant: u8) -> Vec<Replacement> {
  let second = match variant {
    1 => Replacement::new(0, 1, String::new(), None, ReplacementEnforce::Pre), // enforce differs
    2 => Replacement::new(0, 2, String::new(), None, ReplacementEnforce::Normal), // range differs
    _ => Replacement::new(0, 1, String::new(), None, ReplacementEnforce::Normal),
  };
  let mut v = vec![Replacement::new(1, 2, String::new(), None, ReplacementEnforce::Normal), second];
  // variant 3: the same two replacements plus one that sorts after them (a proper extension)
  if variant == 3 { v.push(Replacement::new(5, 6, String::new(), None, ReplacementEnforce::Normal)); }
  v
}
/// a state over the given replacements whose cache is ARBITRARY subject to the K1 invariant
fn warm(variant: u8) -> ReplaceSource<RawStringSource> {
  let a: usize = kani::any();
  let b: usize = kani::any();
  kani::assume(a < 2 && b < 2);
  let idx = if kani::any() { vec![a, b] } else { vec![] };
  let s = ReplaceSource {
    inner: Arc::new(RawStringSource::from_static("")),
    replacements: repls(variant),
    sorted_index: Mutex::new(idx),
    is_sorted: AtomicBool::new(kani::any()),
  };
  kani::assume(!s.is_sorted.load(Ordering::SeqCst) || is_stable_sorted(&s.replacements, &s.sorted_index.lock().unwrap()));
  s
}
fn cold(variant: u8) -> ReplaceSource<RawStringSource> {
  ReplaceSource { inner: Arc::new(RawStringSource::from_static("")), replacements: repls(variant), sorted_index: Mutex::new(Vec::new()), is_sorted: AtomicBool::new(false) }
}
#[kani::proof]
#[kani::unwind(8)]
fn replace_eq_ignores_cache() {
  let v: u8 = kani::any(); kani::assume(v < 4);
  let a = warm(0);
  let b = cold(v);
  kani::cover!(a.is_sorted.load(Ordering::SeqCst), "sorted cache filled");
  assert!((a == b) == (v == 0));
  let c = a.clone();
  assert!(c == a);
}

/// hash is a function of the replacement list: a state whose lazy-sort cache is cold (never sorted) hashes the
/// replacement it holds (n = 1; n = 2 exhausts CBMC's memory)
#[kani::proof]
#[kani::unwind(8)]
fn replace_hash_cold_cache_n1() {
  let s = ReplaceSource {
    inner: Arc::new(RawStringSource::from_static("")),
    replacements: vec![Replacement::new(3, 5, String::new(), None, ReplacementEnforce::Normal)],
    sorted_index: Mutex::new(Vec::new()),
    is_sorted: AtomicBool::new(false),
  };
  let want = (7u64 * 3 + 4) * 3 + 6;
  assert!(h(&s) == want);
  assert!(h(&s) == want);
}
