// K1: lazy-sort representation invariant of ReplaceSource, checked on the REAL methods
// (child module of src/replace_source.rs in a scratch copy; sees private fields).
//
//   Inv(s) := *s.sorted_index == stable_sort_indices(s.replacements[..k], key = (start, end, enforce)) for k = its length
//             /\ (s.is_sorted ==> k == s.replacements.len())
//
// Every harness starts from an ARBITRARY state satisfying Inv (keys symbolic over all of u32 x u32 x enforce,
// stale index vector arbitrary, flag arbitrary) holding exactly N replacements, so what is proved is the
// Hoare triple {Inv} method {Inv /\ post} for all such states -- the history quantifier of C05 is discharged
// by the invariant, not sampled.  Bounded in N (number of replacements held): stated per harness.
use super::*;
use crate::RawStringSource;
#[allow(unused_imports)]
use itertools::Itertools as _; // keeps the crate loaded so that the contract stubs below resolve even if the code stops using it

fn any_enforce() -> ReplacementEnforce {
  let k: u8 = kani::any();
  kani::assume(k < 3);
  match k { 0 => ReplacementEnforce::Pre, 1 => ReplacementEnforce::Normal, _ => ReplacementEnforce::Post }
}
fn any_repl() -> Replacement {
  let start: u32 = kani::any();
  let end: u32 = kani::any();
  kani::assume(start <= end);
  Replacement::new(start, end, String::new(), None, any_enforce())
}
fn key(r: &Replacement) -> (u32, u32, ReplacementEnforce) { (r.start, r.end, r.enforce) }

/// executable twin of the Verus predicate `stable_sorted_idx` (contracts/replace_splice.py)
fn is_stable_sorted(rs: &[Replacement], idx: &[usize]) -> bool {
  if idx.len() != rs.len() { return false; }
  let n = rs.len();
  let mut seen = [false; 4];
  let mut i = 0;
  while i < n {
    if idx[i] >= n || seen[idx[i]] { return false; }
    seen[idx[i]] = true;
    if i > 0 {
      let a = &rs[idx[i - 1]];
      let b = &rs[idx[i]];
      if key(a) > key(b) { return false; }
      if key(a) == key(b) && idx[i - 1] > idx[i] { return false; }
    }
    i += 1;
  }
  true
}
/// Inv(s): sorted_index is always the stable key order of a PREFIX of `replacements` (empty, or what the last sort
/// produced before later pushes), and it covers all of them whenever is_sorted is set.
fn inv<T>(s: &ReplaceSource<T>) -> bool {
  let idx = s.sorted_index.lock().unwrap();
  let k = idx.len();
  k <= s.replacements.len()
    && is_stable_sorted(&s.replacements[..k], &idx)
    && (!s.is_sorted.load(Ordering::SeqCst) || k == s.replacements.len())
}
fn any_idx() -> Vec<usize> {
  let a: usize = kani::any();
  let b: usize = kani::any();
  let c: usize = kani::any();
  kani::assume(a < 4 && b < 4 && c < 4);
  let k: u8 = kani::any();
  match k { 0 => vec![], 1 => vec![a], 2 => vec![a, b], _ => vec![a, b, c] }
}
fn state(n: usize) -> ReplaceSource<RawStringSource> {
  let mut replacements = Vec::new();
  let mut i = 0;
  while i < n { replacements.push(any_repl()); i += 1; }
  let s = ReplaceSource {
    inner: Arc::new(RawStringSource::from_static("")),
    replacements,
    sorted_index: Mutex::new(any_idx()),
    is_sorted: AtomicBool::new(kani::any()),
  };
  kani::assume(inv(&s));
  s
}
// ---- contracts of the sort functions the code may call --------------------------------------------------------
// A caller is checked against its callee's CONTRACT, not its body: itertools' / std's `*_unstable*` sorts promise a
// sorted permutation and nothing about the order of equal elements (their implementations happen to be stable on
// short inputs, so running the real body within the bound n <= 3 would hide the difference).  The stable family
// (`sorted_by`, `sort_by`, ...) is documented stable for every length and runs with its real body here.
trait UnstableSortContracts: Iterator {
  fn any_sorted_permutation<F>(self, mut cmp: F) -> std::vec::IntoIter<Self::Item>
  where Self: Sized, F: FnMut(&Self::Item, &Self::Item) -> std::cmp::Ordering {
    let mut v: Vec<Self::Item> = self.collect();
    let n = v.len();
    let mut k = 0;
    while k < 4 {
      let i: usize = kani::any();
      if n >= 2 && i < n - 1 && kani::any() { v.swap(i, i + 1); }
      k += 1;
    }
    let mut j = 1;
    while j < n { kani::assume(cmp(&v[j - 1], &v[j]) != std::cmp::Ordering::Greater); j += 1; }
    v.into_iter()
  }
  fn sorted_unstable_by_contract<F>(self, cmp: F) -> std::vec::IntoIter<Self::Item>
  where Self: Sized, F: FnMut(&Self::Item, &Self::Item) -> std::cmp::Ordering { self.any_sorted_permutation(cmp) }
  fn sorted_unstable_by_key_contract<K, F>(self, mut f: F) -> std::vec::IntoIter<Self::Item>
  where Self: Sized, K: Ord, F: FnMut(&Self::Item) -> K { self.any_sorted_permutation(|a, b| f(a).cmp(&f(b))) }
  fn sorted_unstable_contract(self) -> std::vec::IntoIter<Self::Item>
  where Self: Sized, Self::Item: Ord { self.any_sorted_permutation(|a, b| a.cmp(b)) }
}
impl<T: Iterator> UnstableSortContracts for T {}

fn same_key(a: &Replacement, b: &Replacement) -> bool { a.start == b.start && a.end == b.end && a.enforce == b.enforce }

#[kani::proof]
#[kani::unwind(5)]
fn new_establishes_inv() {
  let s = ReplaceSource::new(RawStringSource::from_static(""));
  assert!(inv(&s));
  assert!(s.replacements.is_empty());
}

fn mutator_preserves_inv(n: usize) {
  let mut s = state(n);
  kani::cover!(s.is_sorted.load(Ordering::SeqCst), "state with valid cached order is reachable");
  kani::cover!(!s.is_sorted.load(Ordering::SeqCst), "state with stale cache is reachable");
  let k0 = if n > 0 { Some(key(&s.replacements[0])) } else { None };
  let start: u32 = kani::any();
  let end: u32 = kani::any();
  kani::assume(start <= end);
  let which: u8 = kani::any();
  kani::assume(which < 4);
  let e = any_enforce();
  let want = match which {
    0 => { s.replace(start, end, "", None); (start, end, ReplacementEnforce::Normal) }
    1 => { s.replace_with_enforce(start, end, "", None, e); (start, end, e) }
    2 => { s.insert(start, "", None); (start, start, ReplacementEnforce::Normal) }
    _ => { s.insert_with_enforce(start, "", None, e); (start, start, e) }
  };
  assert!(inv(&s));
  assert!(s.replacements.len() == n + 1);
  assert!(key(&s.replacements[n]) == want);
  if let Some(k) = k0 { assert!(key(&s.replacements[0]) == k); }
}
#[kani::proof]
#[kani::unwind(6)]
fn mutator_preserves_inv_n0() { mutator_preserves_inv(0) }
#[kani::proof]
#[kani::unwind(6)]
fn mutator_preserves_inv_n1() { mutator_preserves_inv(1) }
#[kani::proof]
#[kani::unwind(6)]
fn mutator_preserves_inv_n2() { mutator_preserves_inv(2) }

fn sorted_replacement_contract(n: usize) {
  let s = state(n);
  let r = s.sorted_replacement();
  assert!(s.is_sorted.load(Ordering::SeqCst));
  assert!(inv(&s));
  let idx = s.sorted_index.lock().unwrap().clone();
  assert!(is_stable_sorted(&s.replacements, &idx));
  assert!(r.len() == n);
  let mut i = 0;
  while i < n { assert!(std::ptr::eq(r[i], &s.replacements[idx[i]])); i += 1; }
}
#[kani::proof]
#[kani::unwind(6)]
#[kani::stub(itertools::Itertools::sorted_unstable_by, UnstableSortContracts::sorted_unstable_by_contract)]
#[kani::stub(itertools::Itertools::sorted_unstable_by_key, UnstableSortContracts::sorted_unstable_by_key_contract)]
#[kani::stub(itertools::Itertools::sorted_unstable, UnstableSortContracts::sorted_unstable_contract)]
fn sorted_replacement_contract_n0() { sorted_replacement_contract(0) }
#[kani::proof]
#[kani::unwind(6)]
#[kani::stub(itertools::Itertools::sorted_unstable_by, UnstableSortContracts::sorted_unstable_by_contract)]
#[kani::stub(itertools::Itertools::sorted_unstable_by_key, UnstableSortContracts::sorted_unstable_by_key_contract)]
#[kani::stub(itertools::Itertools::sorted_unstable, UnstableSortContracts::sorted_unstable_contract)]
fn sorted_replacement_contract_n1() { sorted_replacement_contract(1) }
#[kani::proof]
#[kani::unwind(6)]
#[kani::stub(itertools::Itertools::sorted_unstable_by, UnstableSortContracts::sorted_unstable_by_contract)]
#[kani::stub(itertools::Itertools::sorted_unstable_by_key, UnstableSortContracts::sorted_unstable_by_key_contract)]
#[kani::stub(itertools::Itertools::sorted_unstable, UnstableSortContracts::sorted_unstable_contract)]
fn sorted_replacement_contract_n2() { sorted_replacement_contract(2) }
#[kani::proof]
#[kani::unwind(7)]
#[kani::stub(itertools::Itertools::sorted_unstable_by, UnstableSortContracts::sorted_unstable_by_contract)]
#[kani::stub(itertools::Itertools::sorted_unstable_by_key, UnstableSortContracts::sorted_unstable_by_key_contract)]
#[kani::stub(itertools::Itertools::sorted_unstable, UnstableSortContracts::sorted_unstable_contract)]
fn sorted_replacement_contract_n3() { sorted_replacement_contract(3) }

fn clone_preserves_inv(n: usize) {
  let s = state(n);
  let c = s.clone();
  assert!(inv(&c));
  assert!(c.replacements.len() == n);
  let mut i = 0;
  while i < n { assert!(same_key(&c.replacements[i], &s.replacements[i])); i += 1; }
  assert!(inv(&s));
}
#[kani::proof]
#[kani::unwind(6)]
fn clone_preserves_inv_n2() { clone_preserves_inv(2) }
