// K6 (C19): the unchecked indexing in Rope's slicing paths on DEGENERATE ropes - a multi-piece representation that
// holds no piece at all (`Rope::from_iter([])`, `from_iter(["", ""])`) - for every range (symbolic over usize x usize).
// The property's quantifier names "empty multi-piece ropes" explicitly.  Bounded: these two rope shapes only.
use super::*;

fn check(r: Rope<'static>) {
  let a: usize = kani::any();
  let b: usize = kani::any();
  let s = r.get_byte_slice(a..b);
  // the rope denotes the empty string: only 0..0 is in range
  if a == 0 && b == 0 { assert!(s.is_some() && s.unwrap().len() == 0); } else { assert!(s.is_none()); }
  assert!(r.len() == 0 && r.is_empty());
  assert!(r.get_byte(a).is_none());
}
#[kani::proof]
#[kani::unwind(6)]
fn rope_from_empty_iter_slice() { check(Rope::from_iter(Vec::<&'static str>::new())) }
#[kani::proof]
#[kani::unwind(6)]
fn rope_from_empty_pieces_slice() { check(Rope::from_iter(vec!["", ""])) }
