import sys,os,re,tarfile,hashlib,json,glob
lock=open(sys.argv[1]).read()
out=sys.argv[2]
os.makedirs(out,exist_ok=True)
pk=re.findall(r'\[\[package\]\]\nname = "([^"]+)"\nversion = "([^"]+)"\n(?:source = "([^"]+)"\n)?(?:checksum = "([^"]+)"\n)?',lock)
missing=[]
for n,v,src,ck in pk:
    if not src: continue
    c=glob.glob(os.path.expanduser(f"~/.cargo/registry/cache/*/{n}-{v}.crate"))
    if not c: missing.append(f"{n}-{v}"); continue
    data=open(c[0],'rb').read()
    h=hashlib.sha256(data).hexdigest()
    assert h==ck,(n,v)
    d=os.path.join(out,f"{n}-{v}")
    if not os.path.isdir(d):
        with tarfile.open(c[0]) as t: t.extractall(out)
    json.dump({"files":{},"package":h},open(os.path.join(d,".cargo-checksum.json"),"w"))
print("missing",missing)
