use vstd::prelude::*;
verus! {

pub open spec fn b64(i: int) -> u8 {
  if i < 26 { (65 + i) as u8 } else if i < 52 { (97 + i - 26) as u8 } else if i < 62 { (48 + i - 52) as u8 } else if i == 62 { 43u8 } else { 47u8 }
}

pub open spec fn vlq_digits(num: nat) -> Seq<u8>
  decreases num
{
  if num / 32 > 0 { seq![b64((num % 32 + 32) as int)] + vlq_digits(num / 32) } else { seq![b64((num % 32) as int)] }
}
pub open spec fn zz(a: int, b: int) -> nat { if a >= b { (2*(a-b)) as nat } else { (2*(b-a)+1) as nat } }

#[verifier::external_body]
exec const B64_CHARS: &'static [u8]
  ensures B64_CHARS@.len() == 64, forall|i: int| 0 <= i < 64 ==> #[trigger] B64_CHARS@[i] == b64(i)
{
  b"ABCDEFGHIJKLMNOPQRSTUVWXYZabcdefghijklmnopqrstuvwxyz0123456789+/"
}

pub fn encode_vlq(out: &mut Vec<u8>, a: u32, b: u32) 
  requires (a >= b ==> a - b < 0x8000_0000) && (a < b ==> b - a < 0x7fff_ffff)
  ensures final(out)@ == old(out)@ + vlq_digits(zz(a as int, b as int))
{
  proof {
    if a >= b { let x = (a - b) as u32; assert(x < 0x8000_0000u32 ==> (x << 1) == 2 * x) by (bit_vector); }
    else { let x = (b - a) as u32; assert(x < 0x7fff_ffffu32 ==> (x << 1) == 2 * x) by (bit_vector); }
  }
  let mut num = if a >= b {
    (a - b) << 1
  } else {
    ((b - a) << 1) + 1
  };
  assert(num as nat == zz(a as int, b as int));

  loop 
    invariant_except_break out@ + vlq_digits(num as nat) == old(out)@ + vlq_digits(zz(a as int, b as int))
    ensures out@ == old(out)@ + vlq_digits(zz(a as int, b as int))
    decreases num
  {
    let ghost num0 = num;
    let ghost out0 = out@;
    let mut digit = num & 0b11111;
    num >>= 5;
    proof {
      assert(num0 & 0b11111 == num0 % 32) by (bit_vector);
      assert(num0 >> 5 == num0 / 32) by (bit_vector);
      let d = digit;
      assert(d < 32 ==> (d | (1u32 << 5)) == d + 32) by (bit_vector);
    }
    if num > 0 {
      digit |= 1 << 5;
    }
    out.push(B64_CHARS[digit as usize]);
    proof {
      assert(out@ == out0 + seq![b64(digit as int)]);
      assert(out0 + seq![b64(digit as int)] + vlq_digits(num as nat) == out0 + (seq![b64(digit as int)] + vlq_digits(num as nat)));
    }
    if num == 0 {
      break;
    }
  }
}

} // verus!
fn main() {}
