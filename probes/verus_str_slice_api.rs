use vstd::prelude::*;
use vstd::utf8::*;
use vstd::string::{str_slice_index_postcondition, str_slice_in_bounds};
use vstd::string::StringSliceAdditionalSpecFns;
use vstd::slice::SliceIndexSpec;
use std::ops::{Index, Range};
use std::slice::SliceIndex;
verus! {
pub assume_specification<I: SliceIndex<str>>[<str as Index<I>>::index](s: &str, r: I) -> (out: &<I as SliceIndex<str>>::Output)
  ensures r.index_postcondition(s, out);
fn sl(s: &str, a: usize, b: usize) -> (r: &str)
  requires a <= b <= s.spec_bytes().len(), is_char_boundary(s.spec_bytes(), a as int), is_char_boundary(s.spec_bytes(), b as int)
  ensures r.spec_bytes() =~= s.spec_bytes().subrange(a as int, b as int)
{ &s[a..b] }
fn bad(s: &str, a: usize, b: usize) -> (r: &str) { &s[a..b] }
} // verus!
fn main() {}
