use vstd::prelude::*;
verus! {
fn f<F: FnMut(u32)>(g: &mut F) 
  requires forall|x: u32| old(g).requires((x,))
{ g(1); g(2); }
} // verus!
fn main() {}
