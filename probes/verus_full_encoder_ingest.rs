use vstd::prelude::*;
verus! {

pub open spec fn b64(i: int) -> u8 {
  if i < 26 { (65 + i) as u8 } else if i < 52 { (97 + i - 26) as u8 } else if i < 62 { (48 + i - 52) as u8 } else if i == 62 { 43u8 } else { 47u8 }
}

pub open spec fn vlq_digits(num: nat) -> Seq<u8>
  decreases num
{
  if num / 32 > 0 { seq![b64((num % 32 + 32) as int)] + vlq_digits(num / 32) } else { seq![b64((num % 32) as int)] }
}
pub open spec fn zz(a: int, b: int) -> nat { if a >= b { (2*(a-b)) as nat } else { (2*(b-a)+1) as nat } }

#[verifier::external_body]
exec const B64_CHARS: &'static [u8]
  ensures B64_CHARS@.len() == 64, forall|i: int| 0 <= i < 64 ==> #[trigger] B64_CHARS@[i] == b64(i)
{
  b"ABCDEFGHIJKLMNOPQRSTUVWXYZabcdefghijklmnopqrstuvwxyz0123456789+/"
}

pub fn encode_vlq(out: &mut Vec<u8>, a: u32, b: u32) 
  requires (a >= b ==> a - b < 0x8000_0000) && (a < b ==> b - a < 0x7fff_ffff)
  ensures final(out)@ == old(out)@ + vlq_digits(zz(a as int, b as int))
{
  proof {
    if a >= b { let x = (a - b) as u32; assert(x < 0x8000_0000u32 ==> (x << 1) == 2 * x) by (bit_vector); }
    else { let x = (b - a) as u32; assert(x < 0x7fff_ffffu32 ==> (x << 1) == 2 * x) by (bit_vector); }
  }
  let mut num = if a >= b {
    (a - b) << 1
  } else {
    ((b - a) << 1) + 1
  };
  assert(num as nat == zz(a as int, b as int));

  loop 
    invariant_except_break out@ + vlq_digits(num as nat) == old(out)@ + vlq_digits(zz(a as int, b as int))
    ensures out@ == old(out)@ + vlq_digits(zz(a as int, b as int))
    decreases num
  {
    let ghost num0 = num;
    let ghost out0 = out@;
    let mut digit = num & 0b11111;
    num >>= 5;
    proof {
      assert(num0 & 0b11111 == num0 % 32) by (bit_vector);
      assert(num0 >> 5 == num0 / 32) by (bit_vector);
      let d = digit;
      assert(d < 32 ==> (d | (1u32 << 5)) == d + 32) by (bit_vector);
    }
    if num > 0 {
      digit |= 1 << 5;
    }
    out.push(B64_CHARS[digit as usize]);
    proof {
      assert(out@ == out0 + seq![b64(digit as int)]);
      assert(out0 + seq![b64(digit as int)] + vlq_digits(num as nat) == out0 + (seq![b64(digit as int)] + vlq_digits(num as nat)));
    }
    if num == 0 {
      break;
    }
  }
}



pub assume_specification<T, F: FnOnce(T) -> bool>[Option::<T>::is_some_and](o: Option<T>, f: F) -> (r: bool)
  requires o is Some ==> f.requires((o->0,)),
  ensures o is None ==> !r, o is Some ==> f.ensures((o->0,), r);
pub assume_specification[String::from_utf8_unchecked](v: Vec<u8>) -> (s: String)
  requires forall|i: int| 0 <= i < v@.len() ==> v@[i] < 128;
pub assume_specification<T: Default>[std::mem::take](x: &mut T) -> (r: T)
  ensures r == *old(x);

pub struct Mapping {
  pub generated_line: u32,
  pub generated_column: u32,
  pub original: Option<OriginalLocation>,
}
pub struct OriginalLocation {
  pub source_index: u32,
  pub original_line: u32,
  pub original_column: u32,
  pub name_index: Option<u32>,
}
struct FullMappingsEncoder {
  current_line: u32,
  current_column: u32,
  current_original_line: u32,
  current_original_column: u32,
  current_source_index: u32,
  current_name_index: u32,
  active_mapping: bool,
  active_name: bool,
  initial: bool,
  mappings: Vec<u8>,
}

impl FullMappingsEncoder {
  pub fn new() -> Self {
    Self {
      current_line: 1,
      current_column: 0,
      current_original_line: 1,
      current_original_column: 0,
      current_source_index: 0,
      current_name_index: 0,
      active_mapping: false,
      active_name: false,
      initial: true,
      mappings: Default::default(),
    }
  }
}

impl FullMappingsEncoder {
  fn encode(&mut self, mapping: &Mapping) {
    if self.active_mapping && self.current_line == mapping.generated_line {
      // A mapping is still active
      if mapping.original.as_ref().is_some_and(|original| {
        original.source_index == self.current_source_index
          && original.original_line == self.current_original_line
          && original.original_column == self.current_original_column
          && !self.active_name
          && original.name_index.is_none()
      }) {
        // avoid repeating the same original mapping
        return;
      }
    } else {
      // No mapping is active
      if mapping.original.is_none() {
        // avoid writing unnecessary generated mappings
        return;
      }
    }

    if self.current_line < mapping.generated_line {
      for _i in 0..mapping.generated_line - self.current_line { self.mappings.push(b';'); }
      self.current_line = mapping.generated_line;
      self.current_column = 0;
      self.initial = false;
    } else if self.initial {
      self.initial = false;
    } else {
      self.mappings.push(b',');
    }

    encode_vlq(
      &mut self.mappings,
      mapping.generated_column,
      self.current_column,
    );
    self.current_column = mapping.generated_column;
    if let Some(original) = &mapping.original {
      self.active_mapping = true;
      if original.source_index == self.current_source_index {
        self.mappings.push(b'A');
      } else {
        encode_vlq(
          &mut self.mappings,
          original.source_index,
          self.current_source_index,
        );
        self.current_source_index = original.source_index;
      }
      encode_vlq(
        &mut self.mappings,
        original.original_line,
        self.current_original_line,
      );
      self.current_original_line = original.original_line;
      if original.original_column == self.current_original_column {
        self.mappings.push(b'A');
      } else {
        encode_vlq(
          &mut self.mappings,
          original.original_column,
          self.current_original_column,
        );
        self.current_original_column = original.original_column;
      }
      if let Some(name_index) = original.name_index {
        encode_vlq(&mut self.mappings, name_index, self.current_name_index);
        self.current_name_index = name_index;
        self.active_name = true;
      } else {
        self.active_name = false;
      }
    } else {
      self.active_mapping = false;
    }
  }

  #[allow(unsafe_code)]
  fn drain(&mut self) -> String {
    unsafe {
      // SAFETY: The `mappings` field in the source map consists solely of ASCII characters.
      String::from_utf8_unchecked(std::mem::take(&mut self.mappings))
    }
  }
}


} // verus!
fn main() {}
