use vstd::prelude::*;
use std::slice::Iter;
use vstd::std_specs::iter::IteratorSpec;
verus! {

pub struct Mapping {
  pub generated_line: u32,
  pub generated_column: u32,
  pub original: Option<OriginalLocation>,
}
pub struct OriginalLocation {
  pub source_index: u32,
  pub original_line: u32,
  pub original_column: u32,
  pub name_index: Option<u32>,
}
// ---------- spec layer for the mappings codec (pure Verus; no repository code) ----------

pub open spec fn b64(i: int) -> u8 {
  if i < 26 { (65 + i) as u8 } else if i < 52 { (97 + i - 26) as u8 } else if i < 62 { (48 + i - 52) as u8 } else if i == 62 { 43u8 } else { 47u8 }
}
// decoder table: sextet value, 0x40 for ',', 0x41 for ';', 0x42 otherwise
pub open spec fn tbl(c: u8) -> u8 {
  if 65 <= c <= 90 { (c - 65) as u8 } else if 97 <= c <= 122 { (c - 97 + 26) as u8 } else if 48 <= c <= 57 { (c - 48 + 52) as u8 }
  else if c == 43 { 62u8 } else if c == 47 { 63u8 } else if c == 44 { 0x40u8 } else if c == 59 { 0x41u8 } else { 0x42u8 }
}
pub proof fn lemma_tbl_b64(i: int) requires 0 <= i < 64 ensures tbl(b64(i)) == i {}

pub open spec fn vlq_digits(num: nat) -> Seq<u8>
  decreases num
{
  if num / 32 > 0 { seq![b64((num % 32 + 32) as int)] + vlq_digits(num / 32) } else { seq![b64((num % 32) as int)] }
}
pub open spec fn zz(a: int, b: int) -> nat { if a >= b { (2*(a-b)) as nat } else { (2*(b-a)+1) as nat } }

// ---------- decoder: byte-level reader ----------
pub struct DS { pub d: Seq<u32>, pub pos: usize, pub val: i64, pub vpos: usize, pub line: u32 }

pub open spec fn emit(pos: usize, line: u32, d: Seq<u32>) -> Option<Mapping> {
  if pos == 1 { Some(Mapping { generated_line: line, generated_column: d[0], original: None }) }
  else if pos == 4 { Some(Mapping { generated_line: line, generated_column: d[0], original: Some(OriginalLocation { source_index: d[1], original_line: d[2], original_column: d[3], name_index: None }) }) }
  else if pos == 5 { Some(Mapping { generated_line: line, generated_column: d[0], original: Some(OriginalLocation { source_index: d[1], original_line: d[2], original_column: d[3], name_index: Some(d[4]) }) }) }
  else { None }
}
pub open spec fn final_value(cv: i64) -> i64 { if (cv & 1) != 0 { (-(cv >> 1)) as i64 } else { cv >> 1 } }

pub open spec fn dec_byte(s: DS, c: u8) -> (DS, Option<Mapping>) {
  let v = tbl(c);
  if v == 0x42u8 { (s, None) }
  else if (v & 0x40u8) != 0 {
    let e = emit(s.pos, s.line, s.d);
    if v == 0x41u8 { (DS { pos: 0, line: (s.line + 1) as u32, d: s.d.update(0, 0u32), ..s }, e) }
    else { (DS { pos: 0, ..s }, e) }
  } else if (v & 0x20u8) == 0 {
    let cv = if s.vpos < 64 { s.val | ((v as i64) << s.vpos) } else { s.val };
    let fv = final_value(cv);
    let d2 = if s.pos < 5 { s.d.update(s.pos as int, ((s.d[s.pos as int] as i64 + fv) as u32)) } else { s.d };
    (DS { d: d2, pos: (s.pos + 1) as usize, val: 0, vpos: 0, ..s }, None)
  } else {
    if s.vpos < 64 { (DS { val: s.val | (((v & 0x1fu8) as i64) << s.vpos), vpos: (s.vpos + 5) as usize, ..s }, None) } else { (s, None) }
  }
}
// what one call of next() does: (result, state after, bytes consumed)
pub open spec fn dec_next(s: DS, bytes: Seq<u8>) -> (Option<Mapping>, DS, nat)
  decreases bytes.len()
{
  if bytes.len() == 0 { (emit(s.pos, s.line, s.d), DS { pos: 0, ..s }, 0) }
  else {
    let (s2, e) = dec_byte(s, bytes[0]);
    if e is Some { (e, s2, 1) } else { let (e3, s3, k) = dec_next(s2, bytes.skip(1)); (e3, s3, k + 1) }
  }
}


const COM: u8 = 0x40; // END_SEGMENT_BIT
const SEM: u8 = COM | 0x01; // NEXT_LINE
const ERR: u8 = COM | 0x02; // INVALID

const CONTINUATION_BIT: u8 = 0x20;
const DATA_MASK: u8 = 0x1f;

const B64: [u8; 256] = [
//  0    1    2    3    4    5    6    7    8    9    A    B    C    D    E    F    //
   ERR, ERR, ERR, ERR, ERR, ERR, ERR, ERR, ERR, ERR, ERR, ERR, ERR, ERR, ERR, ERR,  // 0
   ERR, ERR, ERR, ERR, ERR, ERR, ERR, ERR, ERR, ERR, ERR, ERR, ERR, ERR, ERR, ERR,  // 1
   ERR, ERR, ERR, ERR, ERR, ERR, ERR, ERR, ERR, ERR, ERR,  62, COM, ERR, ERR,  63,  // 2
    52,  53,  54,  55,  56,  57,  58,  59,  60,  61, ERR, SEM, ERR, ERR, ERR, ERR,  // 3
   ERR,   0,   1,   2,   3,   4,   5,   6,   7,   8,   9,  10,  11,  12,  13,  14,  // 4
    15,  16,  17,  18,  19,  20,  21,  22,  23,  24,  25, ERR, ERR, ERR, ERR, ERR,  // 5
   ERR,  26,  27,  28,  29,  30,  31,  32,  33,  34,  35,  36,  37,  38,  39,  40,  // 6
    41,  42,  43,  44,  45,  46,  47,  48,  49,  50,  51, ERR, ERR, ERR, ERR, ERR,  // 7
   ERR, ERR, ERR, ERR, ERR, ERR, ERR, ERR, ERR, ERR, ERR, ERR, ERR, ERR, ERR, ERR,  // 8
   ERR, ERR, ERR, ERR, ERR, ERR, ERR, ERR, ERR, ERR, ERR, ERR, ERR, ERR, ERR, ERR,  // 9
   ERR, ERR, ERR, ERR, ERR, ERR, ERR, ERR, ERR, ERR, ERR, ERR, ERR, ERR, ERR, ERR,  // A
   ERR, ERR, ERR, ERR, ERR, ERR, ERR, ERR, ERR, ERR, ERR, ERR, ERR, ERR, ERR, ERR,  // B
   ERR, ERR, ERR, ERR, ERR, ERR, ERR, ERR, ERR, ERR, ERR, ERR, ERR, ERR, ERR, ERR,  // C
   ERR, ERR, ERR, ERR, ERR, ERR, ERR, ERR, ERR, ERR, ERR, ERR, ERR, ERR, ERR, ERR,  // D
   ERR, ERR, ERR, ERR, ERR, ERR, ERR, ERR, ERR, ERR, ERR, ERR, ERR, ERR, ERR, ERR,  // E
   ERR, ERR, ERR, ERR, ERR, ERR, ERR, ERR, ERR, ERR, ERR, ERR, ERR, ERR, ERR, ERR,  // F
];

pub(crate) struct MappingsDecoder<'a> {
  mappings_iter: Iter<'a, u8>,

  current_data: [u32; 5],
  current_data_pos: usize,
  // current_value will include a sign bit at bit 0
  current_value: i64,
  current_value_pos: usize,
  generated_line: u32,
}

impl<'a> MappingsDecoder<'a> {
  pub fn new(mappings: &'a str) -> Self {
    Self {
      mappings_iter: mappings.as_bytes().iter(),
      current_data: [0u32, 0u32, 1u32, 0u32, 0u32],
      current_data_pos: 0,
      // current_value will include a sign bit at bit 0
      current_value: 0,
      current_value_pos: 0,
      generated_line: 1,
    }
  }
}


proof fn lemma_b64_table()
  ensures forall|c: u8| #[trigger] B64@[c as int] == tbl(c)
{
  assert(COM == 0x40u8 && SEM == 0x41u8 && ERR == 0x42u8) by (compute);
  assert forall|c: u8| #[trigger] B64@[c as int] == tbl(c) by { }
}

impl MappingsDecoder<'_> {
  #[verifier::prophetic]
  pub closed spec fn inv(&self) -> bool {
    &&& self.mappings_iter.obeys_prophetic_iter_laws()
    &&& self.mappings_iter.decrease() is Some
    &&& self.current_value_pos <= 68
    &&& self.generated_line as int + self.mappings_iter.remaining().len() <= u32::MAX
    &&& self.current_data_pos as int + self.mappings_iter.remaining().len() <= u32::MAX
  }
  pub closed spec fn ds(&self) -> DS {
    DS { d: self.current_data@, pos: self.current_data_pos, val: self.current_value, vpos: self.current_value_pos, line: self.generated_line }
  }
  #[verifier::prophetic]
  pub closed spec fn rem(&self) -> Seq<u8> { self.mappings_iter.remaining().map_values(|x: &u8| *x) }

  fn next(&mut self) -> (r: Option<Mapping>)
    requires old(self).inv()
    ensures final(self).inv(),
      ({ let (e, s, k) = dec_next(old(self).ds(), old(self).rem());
         r == e && final(self).ds() == s && k <= old(self).rem().len() && final(self).rem() == old(self).rem().skip(k as int) })
  {
    loop
      invariant self.inv(),
        self.rem().len() <= old(self).rem().len(),
        self.rem() == old(self).rem().skip(old(self).rem().len() - self.rem().len()),
        ({ let (e0, s0, k0) = dec_next(old(self).ds(), old(self).rem());
           let (e, s, k) = dec_next(self.ds(), self.rem());
           e0 == e && s0 == s && k0 == k + (old(self).rem().len() - self.rem().len()) }),
      ensures self.rem().len() == 0
      decreases self.mappings_iter.decrease()->0
    { let ghost pre = *self;
      match self.mappings_iter.next() { None => {
        proof { assert(self.rem() =~= pre.rem()); assert(pre.rem().len() == 0); }
        break }, Some(c) => {
      proof {
        assert(pre.rem() =~= seq![*c] + self.rem());
        assert(self.rem() =~= pre.rem().skip(1));
        assert(pre.rem()[0] == *c);
        let n = old(self).rem().len() - pre.rem().len();
        assert(self.rem() =~= old(self).rem().skip(n + 1));
        assert(self.ds() == pre.ds());
        lemma_b64_table();
        assert(B64@[*c as int] == tbl(*c));
      }
      let value = B64[*c as usize];
      if value == ERR {
        continue;
      }
      if (value & COM) != 0 {
        let mut mapping = Mapping {
          generated_line: self.generated_line,
          generated_column: self.current_data[0],
          original: None,
        };
        let current_data_pos = self.current_data_pos;
        self.current_data_pos = 0;
        if value == SEM {
          self.generated_line += 1;
          self.current_data[0] = 0;
        }
        match current_data_pos {
          1 => return Some(mapping),
          4 => {
            mapping.original = Some(OriginalLocation {
              source_index: self.current_data[1],
              original_line: self.current_data[2],
              original_column: self.current_data[3],
              name_index: None,
            });
            return Some(mapping);
          }
          5 => {
            mapping.original = Some(OriginalLocation {
              source_index: self.current_data[1],
              original_line: self.current_data[2],
              original_column: self.current_data[3],
              name_index: Some(self.current_data[4]),
            });
            return Some(mapping);
          }
          _ => (),
        };
      } else if (value & CONTINUATION_BIT) == 0 {
        // last sextet
        if self.current_value_pos < 64 {
          self.current_value |= (value as i64) << self.current_value_pos;
        }
        let final_value = if (self.current_value & 1) != 0 {
          { proof { let x = self.current_value; assert((x >> 1) > -0x4000_0000_0000_0001i64 && (x >> 1) < 0x4000_0000_0000_0000i64) by (bit_vector); } -(self.current_value >> 1) }
        } else {
          self.current_value >> 1
        };
        proof { let x = self.current_value; assert((x >> 1) > -0x4000_0000_0000_0001i64 && (x >> 1) < 0x4000_0000_0000_0000i64) by (bit_vector); }
        if self.current_data_pos < 5 {
          self.current_data[self.current_data_pos] =
            (self.current_data[self.current_data_pos] as i64 + final_value)
              as u32;
        }
        self.current_data_pos += 1;
        self.current_value_pos = 0;
        self.current_value = 0;
      } else {
        if self.current_value_pos < 64 {
          self.current_value |=
            ((value & DATA_MASK) as i64) << self.current_value_pos;
          self.current_value_pos += 5;
        }
      }
    }}}

    // end current segment
    let current_data_pos = self.current_data_pos;
    self.current_data_pos = 0;
    match current_data_pos {
      1 => {
        return Some(Mapping {
          generated_line: self.generated_line,
          generated_column: self.current_data[0],
          original: None,
        })
      }
      4 => {
        return Some(Mapping {
          generated_line: self.generated_line,
          generated_column: self.current_data[0],
          original: Some(OriginalLocation {
            source_index: self.current_data[1],
            original_line: self.current_data[2],
            original_column: self.current_data[3],
            name_index: None,
          }),
        })
      }
      5 => {
        return Some(Mapping {
          generated_line: self.generated_line,
          generated_column: self.current_data[0],
          original: Some(OriginalLocation {
            source_index: self.current_data[1],
            original_line: self.current_data[2],
            original_column: self.current_data[3],
            name_index: Some(self.current_data[4]),
          }),
        })
      }
      _ => (),
    }

    None
  }
}

} // verus!
fn main() {}
