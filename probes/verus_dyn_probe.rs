use vstd::prelude::*;
use std::sync::Arc;
use std::borrow::Cow;
verus! {
pub trait Src { fn size(&self) -> usize; }
pub struct C { children: Vec<Arc<dyn Src>> }
impl C {
  fn first_size(&self) -> usize 
    requires self.children@.len() > 0
  { self.children[0].size() }
}
fn cow(x: Cow<str>) -> usize { x.len() }
} // verus!
fn main() {}
