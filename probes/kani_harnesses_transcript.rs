// Transcript of the Kani harnesses used as feasibility probes during the design phase.
// Each was appended as a child module (`#[cfg(kani)] mod verif_kani { use super::*; ... }`) to the
// named file of a scratch copy of /repo and run with `cargo kani --harness <name>` (deps vendored by
// mkvendor.py).  Results on the pinned tree are noted above each harness.  Not framework code.

// ---- src/decoder.rs :: cex_decode_4_bytes  — SUCCESSFUL, 6.8 s, all 2^28 ASCII 4-byte strings ----
mod decoder_probe {
  fn tbl(c: u8) -> u8 {
    if (65..=90).contains(&c) { c - 65 } else if (97..=122).contains(&c) { c - 97 + 26 } else if (48..=57).contains(&c) { c - 48 + 52 }
    else if c == 43 { 62 } else if c == 47 { 63 } else if c == 44 { 0x40 } else if c == 59 { 0x41 } else { 0x42 }
  }
  // #[kani::proof] #[kani::unwind(6)]
  fn cex_decode_4_bytes() {
    /*
    let bytes: [u8; 4] = kani::any();
    kani::assume(bytes[0] < 128 && bytes[1] < 128 && bytes[2] < 128 && bytes[3] < 128);
    let s = unsafe { std::str::from_utf8_unchecked(&bytes) };
    let mut d = MappingsDecoder::new(s);
    let mut data = [0i64, 0, 1, 0, 0]; let mut pos = 0usize; let mut val = 0i64; let mut vpos = 0u32; let mut line = 1u32;
    let mut first: Option<(u32, u32, usize)> = None;
    let mut i = 0;
    while i < 4 && first.is_none() {
      let v = tbl(bytes[i]);
      if v == 0x42 { } else if v & 0x40 != 0 {
        if pos == 1 || pos == 4 || pos == 5 { first = Some((line, data[0] as u32, pos)); }
        pos = 0; if v == 0x41 { line += 1; data[0] = 0; }
      } else if v & 0x20 == 0 {
        val |= (v as i64) << vpos;
        let fv = if val & 1 != 0 { -(val >> 1) } else { val >> 1 };
        if pos < 5 { data[pos] = ((data[pos] + fv) as u32) as i64; }
        pos += 1; val = 0; vpos = 0;
      } else { val |= ((v & 0x1f) as i64) << vpos; vpos += 5; }
      i += 1;
    }
    if first.is_none() && (pos == 1 || pos == 4 || pos == 5) { first = Some((line, data[0] as u32, pos)); }
    let r = d.next();
    match (r, first) {
      (None, None) => {},
      (Some(m), Some((l, c, n))) => { assert!(m.generated_line == l && m.generated_column == c); assert!(m.original.is_some() == (n >= 4)); },
      _ => { assert!(false); }
    }
    */
  }
}

// ---- src/replace_source.rs :: replace_preserves_inv — SUCCESSFUL 8.8 s (n = 2);
//      sorted_replacement_contract — SUCCESSFUL 49.7 s (n = 2);
//      mutant "is_sorted.store(false) removed from replace_with_enforce": FAILED in 43 s with
//      concrete values from --concrete-playback=print ----
/*
  fn any_enforce() -> ReplacementEnforce { let k: u8 = kani::any(); kani::assume(k < 3);
    match k { 0 => ReplacementEnforce::Pre, 1 => ReplacementEnforce::Normal, _ => ReplacementEnforce::Post } }
  fn any_repl() -> Replacement { let start: u32 = kani::any(); let end: u32 = kani::any(); kani::assume(start <= end);
    Replacement::new(start, end, String::new(), None, any_enforce()) }
  fn key(r: &Replacement) -> (u32, u32, ReplacementEnforce) { (r.start, r.end, r.enforce) }
  fn is_stable_sorted(rs: &[Replacement], idx: &[usize]) -> bool {
    if idx.len() != rs.len() { return false; }
    let n = rs.len(); let mut seen = [false; 4]; let mut i = 0;
    while i < n {
      if idx[i] >= n || seen[idx[i]] { return false; }
      seen[idx[i]] = true;
      if i > 0 { let a = &rs[idx[i-1]]; let b = &rs[idx[i]];
        if key(a) > key(b) { return false; }
        if key(a) == key(b) && idx[i-1] > idx[i] { return false; } }
      i += 1;
    }
    true
  }
  fn inv(s: &ReplaceSource<RawStringSource>) -> bool {
    !s.is_sorted.load(Ordering::SeqCst) || is_stable_sorted(&s.replacements, &s.sorted_index.lock().unwrap())
  }
  fn any_idx() -> Vec<usize> { let a: usize = kani::any(); let b: usize = kani::any(); let c: usize = kani::any();
    kani::assume(a < 4 && b < 4 && c < 4); let k: u8 = kani::any();
    match k { 0 => vec![], 1 => vec![a], 2 => vec![a, b], _ => vec![a, b, c] } }
  fn state2() -> ReplaceSource<RawStringSource> {
    let s = ReplaceSource { inner: Arc::new(RawStringSource::from_static("")), replacements: vec![any_repl(), any_repl()],
      sorted_index: Mutex::new(any_idx()), is_sorted: AtomicBool::new(kani::any()) };
    kani::assume(inv(&s)); s }
  #[kani::proof] #[kani::unwind(5)]
  fn replace_preserves_inv() {
    let mut s = state2();
    let start: u32 = kani::any(); let end: u32 = kani::any(); kani::assume(start <= end);
    if kani::any() { s.replace(start, end, "", None); } else { s.replace_with_enforce(start, end, "", None, any_enforce()); }
    assert!(inv(&s)); assert!(s.replacements.len() == 3);
  }
  #[kani::proof] #[kani::unwind(5)]
  fn sorted_replacement_contract() {
    let n = 2; let s = state2();
    let r = s.sorted_replacement();
    assert!(inv(&s)); assert!(s.is_sorted.load(Ordering::SeqCst));
    let idx = s.sorted_index.lock().unwrap().clone();
    assert!(is_stable_sorted(&s.replacements, &idx)); assert!(r.len() == n);
    let mut i = 0; while i < n { assert!(std::ptr::eq(r[i], &s.replacements[idx[i]])); i += 1; }
  }
*/

// ---- src/raw_source.rs :: raw_buffer_eq_is_function_of_value — FAILED in 10.2 s on the pinned tree
//      (genuine defect: derive(PartialEq) compares the lazily filled value_as_string) ----
/*
  #[kani::proof] #[kani::unwind(6)]
  fn raw_buffer_eq_is_function_of_value() {
    let a = RawBufferSource::from(vec![97u8, 0xffu8]);
    let b = RawBufferSource::from(vec![97u8, if kani::any() { 0xffu8 } else { 98u8 }]);
    if kani::any() { let _ = a.source(); }
    if kani::any() { let _ = b.source(); }
    assert!((a == b) == (a.value == b.value));
  }
*/

// ---- did NOT terminate / OOM (see DESIGN §2): rs_stream_small (ReplaceSource::stream_chunks, 25 min),
//      rope_get_byte_matches_flat (OOM 35 GB), rope_slice_safe (OOM 39 GB),
//      full_encode_matches_ref (25 min), cex_roundtrip_two_segments (25 min), cex_encode_one (OOM / 10 min),
//      cex_rt_one_named (10 min), raw_buffer_eq with two symbolic bytes (15 min). ----
fn main() {}
