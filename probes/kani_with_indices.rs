#[cfg(kani)]
mod verif_kani {
  use super::*;
  #[kani::proof]
  #[kani::unwind(10)]
  fn substring_str_safe() {
    let t: &'static str = "a\u{e9}b\u{20ac}\n"; // 8 bytes, 5 chars
    let w = WithIndices::new(t);
    let a: usize = kani::any(); let b: usize = kani::any();
    let r: &str = w.substring(a, b);
    // result is a well-formed sub-slice
    let off = r.as_ptr() as usize - t.as_ptr() as usize;
    if !r.is_empty() { assert!(off <= t.len() && off + r.len() <= t.len()); assert!(t.is_char_boundary(off) && t.is_char_boundary(off + r.len())); }
  }
}
