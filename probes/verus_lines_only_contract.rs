use vstd::prelude::*;
verus! {

pub struct Mapping {
  pub generated_line: u32,
  pub generated_column: u32,
  pub original: Option<OriginalLocation>,
}
pub struct OriginalLocation {
  pub source_index: u32,
  pub original_line: u32,
  pub original_column: u32,
  pub name_index: Option<u32>,
}
// ---------- spec layer for the mappings codec (pure Verus; no repository code) ----------

pub open spec fn b64(i: int) -> u8 {
  if i < 26 { (65 + i) as u8 } else if i < 52 { (97 + i - 26) as u8 } else if i < 62 { (48 + i - 52) as u8 } else if i == 62 { 43u8 } else { 47u8 }
}
// decoder table: sextet value, 0x40 for ',', 0x41 for ';', 0x42 otherwise
pub open spec fn tbl(c: u8) -> u8 {
  if 65 <= c <= 90 { (c - 65) as u8 } else if 97 <= c <= 122 { (c - 97 + 26) as u8 } else if 48 <= c <= 57 { (c - 48 + 52) as u8 }
  else if c == 43 { 62u8 } else if c == 47 { 63u8 } else if c == 44 { 0x40u8 } else if c == 59 { 0x41u8 } else { 0x42u8 }
}
pub proof fn lemma_tbl_b64(i: int) requires 0 <= i < 64 ensures tbl(b64(i)) == i {}

pub open spec fn vlq_digits(num: nat) -> Seq<u8>
  decreases num
{
  if num / 32 > 0 { seq![b64((num % 32 + 32) as int)] + vlq_digits(num / 32) } else { seq![b64((num % 32) as int)] }
}
pub open spec fn zz(a: int, b: int) -> nat { if a >= b { (2*(a-b)) as nat } else { (2*(b-a)+1) as nat } }

// ---------- decoder: byte-level reader ----------
pub struct DS { pub d: Seq<u32>, pub pos: usize, pub val: i64, pub vpos: usize, pub line: u32 }

pub open spec fn emit(pos: usize, line: u32, d: Seq<u32>) -> Option<Mapping> {
  if pos == 1 { Some(Mapping { generated_line: line, generated_column: d[0], original: None }) }
  else if pos == 4 { Some(Mapping { generated_line: line, generated_column: d[0], original: Some(OriginalLocation { source_index: d[1], original_line: d[2], original_column: d[3], name_index: None }) }) }
  else if pos == 5 { Some(Mapping { generated_line: line, generated_column: d[0], original: Some(OriginalLocation { source_index: d[1], original_line: d[2], original_column: d[3], name_index: Some(d[4]) }) }) }
  else { None }
}
pub open spec fn final_value(cv: i64) -> i64 { if (cv & 1) != 0 { (-(cv >> 1)) as i64 } else { cv >> 1 } }

pub open spec fn dec_byte(s: DS, c: u8) -> (DS, Option<Mapping>) {
  let v = tbl(c);
  if v == 0x42u8 { (s, None) }
  else if (v & 0x40u8) != 0 {
    let e = emit(s.pos, s.line, s.d);
    if v == 0x41u8 { (DS { pos: 0, line: (s.line + 1) as u32, d: s.d.update(0, 0u32), ..s }, e) }
    else { (DS { pos: 0, ..s }, e) }
  } else if (v & 0x20u8) == 0 {
    let cv = if s.vpos < 64 { s.val | ((v as i64) << s.vpos) } else { s.val };
    let fv = final_value(cv);
    let d2 = if s.pos < 5 { s.d.update(s.pos as int, ((s.d[s.pos as int] as i64 + fv) as u32)) } else { s.d };
    (DS { d: d2, pos: (s.pos + 1) as usize, val: 0, vpos: 0, ..s }, None)
  } else {
    if s.vpos < 64 { (DS { val: s.val | (((v & 0x1fu8) as i64) << s.vpos), vpos: (s.vpos + 5) as usize, ..s }, None) } else { (s, None) }
  }
}
// what one call of next() does: (result, state after, bytes consumed)
pub open spec fn dec_next(s: DS, bytes: Seq<u8>) -> (Option<Mapping>, DS, nat)
  decreases bytes.len()
{
  if bytes.len() == 0 { (emit(s.pos, s.line, s.d), DS { pos: 0, ..s }, 0) }
  else {
    let (s2, e) = dec_byte(s, bytes[0]);
    if e is Some { (e, s2, 1) } else { let (e3, s3, k) = dec_next(s2, bytes.skip(1)); (e3, s3, k + 1) }
  }
}
// ---------- encoder: the v3 writer ----------
pub struct ES { pub line: u32, pub col: u32, pub ol: u32, pub oc: u32, pub si: u32, pub ni: u32, pub am: bool, pub an: bool, pub init: bool }
pub open spec fn es0() -> ES { ES { line: 1, col: 0, ol: 1, oc: 0, si: 0, ni: 0, am: false, an: false, init: true } }

pub open spec fn dropped(s: ES, m: Mapping) -> bool {
  if s.am && s.line == m.generated_line {
    match m.original {
      Some(o) => o.source_index == s.si && o.original_line == s.ol && o.original_column == s.oc && !s.an && o.name_index is None,
      None => false,
    }
  } else { m.original is None }
}
pub open spec fn semis(n: nat) -> Seq<u8> { Seq::new(n, |i: int| 59u8) }
pub open spec fn sep_bytes(s: ES, m: Mapping) -> Seq<u8> {
  if s.line < m.generated_line { semis((m.generated_line - s.line) as nat) } else if s.init { Seq::<u8>::empty() } else { seq![44u8] }
}
pub open spec fn fld(a: u32, b: u32) -> Seq<u8> { vlq_digits(zz(a as int, b as int)) }
pub open spec fn orig_bytes(s: ES, m: Mapping) -> Seq<u8> {
  match m.original {
    Some(o) => fld(o.source_index, s.si) + fld(o.original_line, s.ol) + fld(o.original_column, s.oc)
               + (match o.name_index { Some(n) => fld(n, s.ni), None => Seq::<u8>::empty() }),
    None => Seq::<u8>::empty(),
  }
}
pub open spec fn enc_bytes(s: ES, m: Mapping) -> Seq<u8> {
  if dropped(s, m) { Seq::<u8>::empty() } else {
    let col0 = if s.line < m.generated_line { 0u32 } else { s.col };
    sep_bytes(s, m) + fld(m.generated_column, col0) + orig_bytes(s, m)
  }
}
pub open spec fn enc_state(s: ES, m: Mapping) -> ES {
  if dropped(s, m) { s } else {
    let s1 = ES { line: if s.line < m.generated_line { m.generated_line } else { s.line }, col: m.generated_column, init: false, ..s };
    match m.original {
      Some(o) => ES { am: true, si: o.source_index, ol: o.original_line, oc: o.original_column,
                      ni: (match o.name_index { Some(n) => n, None => s1.ni }), an: o.name_index is Some, ..s1 },
      None => ES { am: false, ..s1 },
    }
  }
}
pub open spec fn lim() -> int { 0x4000_0000 }
pub open spec fn m_in_dom(m: Mapping) -> bool {
  &&& 1 <= m.generated_line < lim() && m.generated_column < lim()
  &&& match m.original { Some(o) => o.source_index < lim() && o.original_line < lim() && o.original_column < lim()
        && (match o.name_index { Some(n) => n < lim(), None => true }), None => true }
}
pub open spec fn es_in_dom(s: ES) -> bool { 1 <= s.line < lim() && s.col < lim() && s.ol < lim() && s.oc < lim() && s.si < lim() && s.ni < lim() }
pub open spec fn is_wire(b: u8) -> bool { tbl(b) != 0x42u8 }
pub open spec fn all_wire(bs: Seq<u8>) -> bool { forall|i: int| 0 <= i < bs.len() ==> is_wire(#[trigger] bs[i]) }

pub assume_specification<T, F: FnOnce(T) -> bool>[Option::<T>::is_some_and](o: Option<T>, f: F) -> (r: bool)
  requires o is Some ==> f.requires((o->0,)),
  ensures o is None ==> !r, o is Some ==> f.ensures((o->0,), r);
pub assume_specification[String::from_utf8_unchecked](v: Vec<u8>) -> (s: String)
  requires forall|i: int| 0 <= i < v@.len() ==> v@[i] < 128;
pub assume_specification<T: Default>[std::mem::take](x: &mut T) -> (r: T)
  ensures r == *old(x);

#[verifier::external_body]
exec const B64_CHARS: &'static [u8]
  ensures B64_CHARS@.len() == 64, forall|i: int| 0 <= i < 64 ==> #[trigger] B64_CHARS@[i] == b64(i)
{
  b"ABCDEFGHIJKLMNOPQRSTUVWXYZabcdefghijklmnopqrstuvwxyz0123456789+/"
}
pub proof fn lemma_vlq_wire(n: nat)
  ensures all_wire(vlq_digits(n)), vlq_digits(n).len() >= 1
  decreases n
{
  if n / 32 > 0 { lemma_vlq_wire(n / 32); lemma_tbl_b64((n % 32 + 32) as int); } else { lemma_tbl_b64((n % 32) as int); }
}

pub proof fn lemma_fld_same(x: u32) ensures fld(x, x) == seq![65u8]
{ assert(zz(x as int, x as int) == 0); reveal_with_fuel(vlq_digits, 2); assert(vlq_digits(0) =~= seq![65u8]); }
pub proof fn lemma_wire_concat(a: Seq<u8>, b: Seq<u8>) requires all_wire(a), all_wire(b) ensures all_wire(a + b) {}
pub proof fn lemma_fld_wire(a: u32, b: u32) ensures all_wire(fld(a, b)) { lemma_vlq_wire(zz(a as int, b as int)); }
pub proof fn lemma_enc_bytes_wire(s: ES, m: Mapping) ensures all_wire(enc_bytes(s, m))
{
  if !dropped(s, m) {
    let col0 = if s.line < m.generated_line { 0u32 } else { s.col };
    assert(all_wire(sep_bytes(s, m)));
    lemma_fld_wire(m.generated_column, col0);
    match m.original {
      Some(o) => {
        lemma_fld_wire(o.source_index, s.si); lemma_fld_wire(o.original_line, s.ol); lemma_fld_wire(o.original_column, s.oc);
        match o.name_index { Some(n) => { lemma_fld_wire(n, s.ni); }, None => {} }
        lemma_wire_concat(fld(o.source_index, s.si), fld(o.original_line, s.ol));
        lemma_wire_concat(fld(o.source_index, s.si) + fld(o.original_line, s.ol), fld(o.original_column, s.oc));
        lemma_wire_concat(fld(o.source_index, s.si) + fld(o.original_line, s.ol) + fld(o.original_column, s.oc), (match o.name_index { Some(n) => fld(n, s.ni), None => Seq::<u8>::empty() }));
      },
      None => {},
    }
    lemma_wire_concat(sep_bytes(s, m), fld(m.generated_column, col0));
    lemma_wire_concat(sep_bytes(s, m) + fld(m.generated_column, col0), orig_bytes(s, m));
  }
}

pub fn encode_vlq(out: &mut Vec<u8>, a: u32, b: u32)
  requires (a >= b ==> a - b < 0x8000_0000) && (a < b ==> b - a < 0x7fff_ffff)
  ensures final(out)@ == old(out)@ + vlq_digits(zz(a as int, b as int))
{
  proof {
    if a >= b { let x = (a - b) as u32; assert(x < 0x8000_0000u32 ==> (x << 1) == 2 * x) by (bit_vector); }
    else { let x = (b - a) as u32; assert(x < 0x7fff_ffffu32 ==> (x << 1) == 2 * x) by (bit_vector); }
  }
  let mut num = if a >= b {
    (a - b) << 1
  } else {
    ((b - a) << 1) + 1
  };

  loop
    invariant_except_break out@ + vlq_digits(num as nat) == old(out)@ + vlq_digits(zz(a as int, b as int))
    ensures out@ == old(out)@ + vlq_digits(zz(a as int, b as int))
    decreases num
  {
    let ghost num0 = num;
    let ghost out0 = out@;
    let mut digit = num & 0b11111;
    num >>= 5;
    proof {
      assert(num0 & 0b11111 == num0 % 32) by (bit_vector);
      assert(num0 >> 5 == num0 / 32) by (bit_vector);
      let d = digit;
      assert(d < 32 ==> (d | (1u32 << 5)) == d + 32) by (bit_vector);
    }
    if num > 0 {
      digit |= 1 << 5;
    }
    out.push(B64_CHARS[digit as usize]);
    proof {
      assert(out@ == out0 + seq![b64(digit as int)]);
      assert(out0 + seq![b64(digit as int)] + vlq_digits(num as nat) == out0 + (seq![b64(digit as int)] + vlq_digits(num as nat)));
    }
    if num == 0 {
      break;
    }
  }
}

struct FullMappingsEncoder {
  current_line: u32,
  current_column: u32,
  current_original_line: u32,
  current_original_column: u32,
  current_source_index: u32,
  current_name_index: u32,
  active_mapping: bool,
  active_name: bool,
  initial: bool,
  mappings: Vec<u8>,
}

impl FullMappingsEncoder {
  pub closed spec fn es(&self) -> ES {
    ES { line: self.current_line, col: self.current_column, ol: self.current_original_line, oc: self.current_original_column,
         si: self.current_source_index, ni: self.current_name_index, am: self.active_mapping, an: self.active_name, init: self.initial }
  }
  pub closed spec fn bytes(&self) -> Seq<u8> { self.mappings@ }
  pub fn new() -> (r: Self)
    ensures r.es() == es0(), r.bytes() == Seq::<u8>::empty()
  {
    Self {
      current_line: 1,
      current_column: 0,
      current_original_line: 1,
      current_original_column: 0,
      current_source_index: 0,
      current_name_index: 0,
      active_mapping: false,
      active_name: false,
      initial: true,
      mappings: Default::default(),
    }
  }
}

impl FullMappingsEncoder {
  fn encode(&mut self, mapping: &Mapping)
    requires es_in_dom(old(self).es()), m_in_dom(*mapping), old(self).es().line <= mapping.generated_line, all_wire(old(self).bytes())
    ensures final(self).es() == enc_state(old(self).es(), *mapping),
      final(self).bytes() == old(self).bytes() + enc_bytes(old(self).es(), *mapping),
      all_wire(final(self).bytes()), es_in_dom(final(self).es())
  {
    let ghost s0 = self.es();
    let ghost b0 = self.bytes();
    let ghost m = *mapping;
    proof { lemma_enc_bytes_wire(s0, m); lemma_wire_concat(b0, enc_bytes(s0, m)); }
    if self.active_mapping && self.current_line == mapping.generated_line {
      // A mapping is still active
      if mapping.original.as_ref().is_some_and(|original: &OriginalLocation| -> (r: bool)
        ensures r == (original.source_index == self.current_source_index
          && original.original_line == self.current_original_line
          && original.original_column == self.current_original_column
          && !self.active_name
          && original.name_index is None)
      {
        original.source_index == self.current_source_index
          && original.original_line == self.current_original_line
          && original.original_column == self.current_original_column
          && !self.active_name
          && original.name_index.is_none()
      }) {
        // avoid repeating the same original mapping
        proof { assert(dropped(s0, m)); assert(b0 + Seq::<u8>::empty() =~= b0); }
        return;
      }
    } else {
      // No mapping is active
      if mapping.original.is_none() {
        // avoid writing unnecessary generated mappings
        proof { assert(dropped(s0, m)); assert(b0 + Seq::<u8>::empty() =~= b0); }
        return;
      }
    }

    assert(!dropped(s0, m));
    let ghost col0 = if s0.line < m.generated_line { 0u32 } else { s0.col };
    if self.current_line < mapping.generated_line {
      let ghost gap = (mapping.generated_line - self.current_line) as nat;
      for _i in 0..mapping.generated_line - self.current_line
        invariant self.es() == old(self).es(), self.bytes() == old(self).bytes() + semis(_i as nat), gap == (mapping.generated_line - self.current_line) as nat,
      { self.mappings.push(b';');
        proof { assert(old(self).bytes() + semis(_i as nat) + seq![59u8] =~= old(self).bytes() + semis((_i + 1) as nat)); } }
      self.current_line = mapping.generated_line;
      self.current_column = 0;
      self.initial = false;
    } else if self.initial {
      self.initial = false;
    } else {
      self.mappings.push(b',');
    }

    proof { assert(self.bytes() =~= b0 + sep_bytes(s0, m)); assert(self.current_column == col0); }
    encode_vlq(
      &mut self.mappings,
      mapping.generated_column,
      self.current_column,
    );
    self.current_column = mapping.generated_column;
    let ghost b1 = b0 + sep_bytes(s0, m) + fld(m.generated_column, col0);
    proof { assert(self.bytes() == b1); }
    if let Some(original) = &mapping.original {
      self.active_mapping = true;
      if original.source_index == self.current_source_index {
        self.mappings.push(b'A');
      } else {
        encode_vlq(
          &mut self.mappings,
          original.source_index,
          self.current_source_index,
        );
        self.current_source_index = original.source_index;
      }
      proof { lemma_fld_same(original.source_index); assert(self.bytes() == b1 + fld(original.source_index, s0.si)); }
      encode_vlq(
        &mut self.mappings,
        original.original_line,
        self.current_original_line,
      );
      self.current_original_line = original.original_line;
      let ghost b3 = b1 + fld(original.source_index, s0.si) + fld(original.original_line, s0.ol);
      proof { assert(self.bytes() == b3); }
      if original.original_column == self.current_original_column {
        self.mappings.push(b'A');
      } else {
        encode_vlq(
          &mut self.mappings,
          original.original_column,
          self.current_original_column,
        );
        self.current_original_column = original.original_column;
      }
      let ghost b4 = b3 + fld(original.original_column, s0.oc);
      proof { lemma_fld_same(original.original_column); assert(self.bytes() == b4); }
      if let Some(name_index) = original.name_index {
        encode_vlq(&mut self.mappings, name_index, self.current_name_index);
        self.current_name_index = name_index;
        self.active_name = true;
        proof { assert(self.bytes() =~= b0 + enc_bytes(s0, m)); }
      } else {
        self.active_name = false;
        proof { assert(self.bytes() =~= b0 + enc_bytes(s0, m)); }
      }
    } else {
      self.active_mapping = false;
      proof { assert(self.bytes() =~= b0 + enc_bytes(s0, m)); }
    }
  }

  fn drain(&mut self) -> (r: String)
    requires all_wire(old(self).bytes())
  {
    unsafe {
      // SAFETY: The `mappings` field in the source map consists solely of ASCII characters.
      String::from_utf8_unchecked(std::mem::take(&mut self.mappings))
    }
  }
}


// ---------- lines-only writer, expressed through the full writer's spec ----------
pub struct LS { pub lw: u32, pub line: u32, pub si: u32, pub ol: u32 }
pub open spec fn ls0() -> LS { LS { lw: 0, line: 1, si: 0, ol: 1 } }
pub open spec fn ls_inv(ls: LS) -> bool { (ls.lw == 0 || ls.lw == ls.line) && 1 <= ls.line < lim() && ls.si < lim() && ls.ol < lim() }
pub open spec fn l_of(m: Mapping) -> Mapping {
  Mapping { generated_line: m.generated_line, generated_column: 0,
    original: Some(OriginalLocation { source_index: m.original->0.source_index, original_line: m.original->0.original_line, original_column: 0, name_index: None }) }
}
pub open spec fn es_of(ls: LS) -> ES { ES { line: ls.line, col: 0, ol: ls.ol, oc: 0, si: ls.si, ni: 0, am: ls.lw != 0, an: false, init: ls.lw == 0 } }
pub open spec fn lines_skip(ls: LS, m: Mapping) -> bool { m.original is None || ls.lw == m.generated_line }
pub open spec fn lines_bytes(ls: LS, m: Mapping) -> Seq<u8> { if lines_skip(ls, m) { Seq::<u8>::empty() } else { enc_bytes(es_of(ls), l_of(m)) } }
pub open spec fn lines_state(ls: LS, m: Mapping) -> LS {
  if lines_skip(ls, m) { ls } else { LS { lw: m.generated_line, line: m.generated_line, si: m.original->0.source_index, ol: m.original->0.original_line } }
}
pub proof fn lemma_fld_plus1(x: u32) requires x < lim() ensures fld((x + 1) as u32, x) == seq![67u8]
{ assert(zz(x as int + 1, x as int) == 2); reveal_with_fuel(vlq_digits, 2); assert(vlq_digits(2) =~= seq![67u8]); }

pub(crate) struct LinesOnlyMappingsEncoder {
  last_written_line: u32,
  current_line: u32,
  current_source_index: u32,
  current_original_line: u32,
  mappings: Vec<u8>,
}

impl LinesOnlyMappingsEncoder {
  pub closed spec fn ls(&self) -> LS { LS { lw: self.last_written_line, line: self.current_line, si: self.current_source_index, ol: self.current_original_line } }
  pub closed spec fn bytes(&self) -> Seq<u8> { self.mappings@ }
  pub fn new() -> (r: Self)
    ensures r.ls() == ls0(), r.bytes() == Seq::<u8>::empty()
  {
    Self {
      last_written_line: 0,
      current_line: 1,
      current_source_index: 0,
      current_original_line: 1,
      mappings: Default::default(),
    }
  }
}

impl LinesOnlyMappingsEncoder {
  fn encode(&mut self, mapping: &Mapping)
    requires ls_inv(old(self).ls()), m_in_dom(*mapping), old(self).ls().line <= mapping.generated_line, all_wire(old(self).bytes())
    ensures final(self).ls() == lines_state(old(self).ls(), *mapping),
      final(self).bytes() == old(self).bytes() + lines_bytes(old(self).ls(), *mapping),
      ls_inv(final(self).ls()), all_wire(final(self).bytes())
  {
    let ghost l0 = self.ls();
    let ghost b0 = self.bytes();
    let ghost m = *mapping;
    proof { assert(b0 + Seq::<u8>::empty() =~= b0); }
    if let Some(original) = &mapping.original {
      if self.last_written_line == mapping.generated_line {
        // avoid writing multiple original mappings per line
        return;
      }
      let ghost e0 = es_of(l0);
      let ghost lm = l_of(m);
      proof {
        assert(!dropped(e0, lm));
        lemma_enc_bytes_wire(e0, lm); lemma_wire_concat(b0, enc_bytes(e0, lm));
        lemma_fld_same(0u32); lemma_fld_same(original.source_index); lemma_fld_plus1(self.current_original_line);
      }
      self.last_written_line = mapping.generated_line;

      let line_delta = mapping.generated_line - self.current_line;
      if line_delta > 0 {
        for _i in 0..line_delta as usize
          invariant self.ls() == (LS { lw: m.generated_line, ..l0 }), self.bytes() == b0 + semis(_i as nat), line_delta == m.generated_line - l0.line,
        { self.mappings.push(b';');
          proof { assert(b0 + semis(_i as nat) + seq![59u8] =~= b0 + semis((_i + 1) as nat)); } }
      }
      proof { assert(self.bytes() =~= b0 + sep_bytes(e0, lm)); }
      let ghost b1 = b0 + sep_bytes(e0, lm);

      self.current_line = mapping.generated_line;

      if original.source_index == self.current_source_index {
        if original.original_line == self.current_original_line + 1 {
          self.current_original_line = original.original_line;
          self.mappings.push(b'A'); self.mappings.push(b'A'); self.mappings.push(b'C'); self.mappings.push(b'A');
          proof { assert(self.bytes() =~= b1 + seq![65u8] + seq![65u8] + seq![67u8] + seq![65u8]);
                  assert(self.bytes() =~= b0 + enc_bytes(e0, lm)); }
        } else {
          self.mappings.push(b'A'); self.mappings.push(b'A');
          encode_vlq(
            &mut self.mappings,
            original.original_line,
            self.current_original_line,
          );
          self.current_original_line = original.original_line;
          self.mappings.push(b'A');
          proof { assert(self.bytes() =~= b1 + seq![65u8] + seq![65u8] + fld(original.original_line, l0.ol) + seq![65u8]);
                  assert(self.bytes() =~= b0 + enc_bytes(e0, lm)); }
        }
      } else {
        self.mappings.push(b'A');
        encode_vlq(
          &mut self.mappings,
          original.source_index,
          self.current_source_index,
        );
        self.current_source_index = original.source_index;
        encode_vlq(
          &mut self.mappings,
          original.original_line,
          self.current_original_line,
        );
        self.current_original_line = original.original_line;
        self.mappings.push(b'A');
        proof { assert(self.bytes() =~= b1 + seq![65u8] + fld(original.source_index, l0.si) + fld(original.original_line, l0.ol) + seq![65u8]);
                assert(self.bytes() =~= b0 + enc_bytes(e0, lm)); }
      }
    }
  }

  fn drain(&mut self) -> (r: String)
    requires all_wire(old(self).bytes())
  {
    unsafe {
      // SAFETY: The `mappings` field in the source map consists solely of ASCII characters.
      String::from_utf8_unchecked(std::mem::take(&mut self.mappings))
    }
  }
}

} // verus!
fn main() {}
