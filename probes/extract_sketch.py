#!/usr/bin/env python3
"""Sketch of the extractor (design-phase probe, not the framework).
Cuts items out of a repository file by anchor with a brace matcher, applies the declared
rules, and splices sidecar clauses at anchored positions.  Any anchor/rule that does not
match exactly raises -> the real driver turns that into exit 2 (undecided)."""
import re, sys, hashlib

class Lost(Exception): pass

def cut_item(src, anchor):
    """return text of the item starting at the line containing `anchor` up to its matching close brace / semicolon"""
    i = src.find(anchor)
    if i < 0 or src.find(anchor, i + 1) >= 0: raise Lost("anchor not unique: " + anchor)
    start = src.rfind("\n", 0, i) + 1
    j = i; depth = 0; seen = False
    in_str = None
    while j < len(src):
        c = src[j]
        if in_str:
            if c == "\\": j += 2; continue
            if c == in_str: in_str = None
        elif c == '"': in_str = '"'
        elif c == "'" and re.match(r"'(\\.|[^\\'])'", src[j:j+4]):  # char literal, not a lifetime
            j += len(re.match(r"'(\\.|[^\\'])'", src[j:j+4]).group(0)); continue
        elif c == "/" and src[j:j+2] == "//": j = src.find("\n", j); continue
        elif c in "{[(": depth += 1; seen = seen or c == "{"
        elif c in "}])":
            depth -= 1
            if depth == 0 and seen and c == "}": return src[start:j+1]
        elif c == ";" and depth == 0: return src[start:j+1]
        j += 1
    raise Lost("unbalanced item at " + anchor)

def rule(text, pattern, repl, name, count=1):
    new, n = re.subn(pattern, repl, text, flags=re.S)
    if n != count: raise Lost(f"rule {name}: expected {count} match(es), found {n}")
    return new

def insert_after_line(text, line_pat, addition, name):
    m = list(re.finditer(r"^[ \t]*" + line_pat + r"[ \t]*$", text, flags=re.M))
    if len(m) != 1: raise Lost(f"anchor {name}: {len(m)} matches")
    e = m[0].end()
    return text[:e] + "\n" + addition + text[e:]

def insert_before_line(text, line_pat, addition, name):
    m = list(re.finditer(r"^[ \t]*" + line_pat + r"[ \t]*$", text, flags=re.M))
    if len(m) != 1: raise Lost(f"anchor {name}: {len(m)} matches")
    s = m[0].start()
    return text[:s] + addition + "\n" + text[s:]

if __name__ == "__main__":
    repo = sys.argv[1]
    src = open(repo + "/src/decoder.rs").read()
    items = {}
    for a in ["const COM: u8", "const SEM: u8", "const ERR: u8", "const CONTINUATION_BIT: u8", "const DATA_MASK: u8",
              "const B64: [u8; 256]", "pub(crate) struct MappingsDecoder<'a>", "impl<'a> MappingsDecoder<'a>",
              "impl Iterator for MappingsDecoder<'_>"]:
        t = cut_item(src, a)
        items[a] = t
        print("item", repr(a), len(t.splitlines()), "lines", hashlib.sha256(t.encode()).hexdigest()[:12])
    it = items["impl Iterator for MappingsDecoder<'_>"]
    it = rule(it, r"impl Iterator for MappingsDecoder<'_> \{\n  type Item = Mapping;\n", "impl MappingsDecoder<'_> {\n", "D1")
    it = rule(it, r"Option<Self::Item>", "Option<Mapping>", "D1b")
    # R1: for P in &mut IT { B }  ->  loop { match IT.next() { None => break, Some(P) => { B } } }
    m = re.search(r"^(\s*)for (\w+) in &mut ([\w\.]+) \{\n", it, flags=re.M)
    if not m: raise Lost("R1 head")
    body_start = m.end() - 2  # position of '{'
    loop_item = cut_item(it[m.start():], "for ")  # the whole for statement
    inner = loop_item[loop_item.index("{")+1:-1]
    repl = f"{m.group(1)}loop /*@loop1*/ {{ match {m.group(3)}.next() {{ None => break, Some({m.group(2)}) => {{{inner}}} }} }}"
    it = it.replace(loop_item.lstrip("\n"), repl.lstrip("\n") if not loop_item.startswith("\n") else repl, 1)
    print("R1 applied; loop marker present:", "/*@loop1*/" in it)
    print(it[:400])
