use vstd::prelude::*;
use std::borrow::Cow;
use std::sync::Arc;
verus! {
pub trait Source {
  fn source(&self) -> Cow<str>;
}
pub enum ReplacementEnforce { Pre, Normal, Post }
struct Replacement {
  start: u32,
  end: u32,
  content: String,
  name: Option<String>,
  enforce: ReplacementEnforce,
}
pub struct ReplaceSource<T> {
  inner: Arc<T>,
  replacements: Vec<Replacement>,
}
impl<T: Source> ReplaceSource<T> {
  #[verifier::external_body]
  fn sorted_replacement(&self) -> Vec<&Replacement> { unimplemented!() }

  fn source(&self) -> Cow<str> {
    let inner_source_code = self.inner.source();

    // mut_string_push_str is faster that vec join
    // concatenate strings benchmark, see https://github.com/hoodie/concatenation_benchmarks-rs
    let replacements = self.sorted_replacement();
    if replacements.is_empty() {
      return inner_source_code;
    }
    let mut source_code = String::new();
    let mut inner_pos = 0;
    for replacement in replacements.iter() {
      if inner_pos < replacement.start {
        let end_pos = (replacement.start as usize).min(inner_source_code.len());
        source_code.push_str(&inner_source_code[inner_pos as usize..end_pos]);
      }
      source_code.push_str(&replacement.content);
      #[allow(clippy::manual_clamp)]
      {
        inner_pos = inner_pos
          .max(replacement.end)
          .min(inner_source_code.len() as u32);
      }
    }
    source_code.push_str(
      &inner_source_code[inner_pos as usize..inner_source_code.len()],
    );

    source_code.into()
  }
}
} // verus!
fn main() {}
