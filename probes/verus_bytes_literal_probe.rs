use vstd::prelude::*;
verus! {
fn f(v: &mut Vec<u8>, n: u32)
  ensures final(v)@.len() == old(v)@.len() + 4 + n
{
  v.extend_from_slice(b"AACA");
  let ghost l0 = v@.len();
  for _i in 0..(n as usize)
    invariant v@.len() == l0 + _i
  { v.push(b';'); }
}
} // verus!
fn main() {}
