use vstd::prelude::*;
use std::slice::Iter;
use vstd::std_specs::iter::IteratorSpec;
verus! {
pub struct Mapping {
  pub generated_line: u32,
  pub generated_column: u32,
  pub original: Option<OriginalLocation>,
}
pub struct OriginalLocation {
  pub source_index: u32,
  pub original_line: u32,
  pub original_column: u32,
  pub name_index: Option<u32>,
}


const COM: u8 = 0x40; // END_SEGMENT_BIT
const SEM: u8 = COM | 0x01; // NEXT_LINE
const ERR: u8 = COM | 0x02; // INVALID

const CONTINUATION_BIT: u8 = 0x20;
const DATA_MASK: u8 = 0x1f;

#[rustfmt::skip]
const B64: [u8; 256] = [
//  0    1    2    3    4    5    6    7    8    9    A    B    C    D    E    F    //
   ERR, ERR, ERR, ERR, ERR, ERR, ERR, ERR, ERR, ERR, ERR, ERR, ERR, ERR, ERR, ERR,  // 0
   ERR, ERR, ERR, ERR, ERR, ERR, ERR, ERR, ERR, ERR, ERR, ERR, ERR, ERR, ERR, ERR,  // 1
   ERR, ERR, ERR, ERR, ERR, ERR, ERR, ERR, ERR, ERR, ERR,  62, COM, ERR, ERR,  63,  // 2
    52,  53,  54,  55,  56,  57,  58,  59,  60,  61, ERR, SEM, ERR, ERR, ERR, ERR,  // 3
   ERR,   0,   1,   2,   3,   4,   5,   6,   7,   8,   9,  10,  11,  12,  13,  14,  // 4
    15,  16,  17,  18,  19,  20,  21,  22,  23,  24,  25, ERR, ERR, ERR, ERR, ERR,  // 5
   ERR,  26,  27,  28,  29,  30,  31,  32,  33,  34,  35,  36,  37,  38,  39,  40,  // 6
    41,  42,  43,  44,  45,  46,  47,  48,  49,  50,  51, ERR, ERR, ERR, ERR, ERR,  // 7
   ERR, ERR, ERR, ERR, ERR, ERR, ERR, ERR, ERR, ERR, ERR, ERR, ERR, ERR, ERR, ERR,  // 8
   ERR, ERR, ERR, ERR, ERR, ERR, ERR, ERR, ERR, ERR, ERR, ERR, ERR, ERR, ERR, ERR,  // 9
   ERR, ERR, ERR, ERR, ERR, ERR, ERR, ERR, ERR, ERR, ERR, ERR, ERR, ERR, ERR, ERR,  // A
   ERR, ERR, ERR, ERR, ERR, ERR, ERR, ERR, ERR, ERR, ERR, ERR, ERR, ERR, ERR, ERR,  // B
   ERR, ERR, ERR, ERR, ERR, ERR, ERR, ERR, ERR, ERR, ERR, ERR, ERR, ERR, ERR, ERR,  // C
   ERR, ERR, ERR, ERR, ERR, ERR, ERR, ERR, ERR, ERR, ERR, ERR, ERR, ERR, ERR, ERR,  // D
   ERR, ERR, ERR, ERR, ERR, ERR, ERR, ERR, ERR, ERR, ERR, ERR, ERR, ERR, ERR, ERR,  // E
   ERR, ERR, ERR, ERR, ERR, ERR, ERR, ERR, ERR, ERR, ERR, ERR, ERR, ERR, ERR, ERR,  // F
];

pub(crate) struct MappingsDecoder<'a> {
  mappings_iter: Iter<'a, u8>,

  current_data: [u32; 5],
  current_data_pos: usize,
  // current_value will include a sign bit at bit 0
  current_value: i64,
  current_value_pos: usize,
  generated_line: u32,
}

impl<'a> MappingsDecoder<'a> {
  pub fn new(mappings: &'a str) -> Self {
    Self {
      mappings_iter: mappings.as_bytes().iter(),
      current_data: [0u32, 0u32, 1u32, 0u32, 0u32],
      current_data_pos: 0,
      // current_value will include a sign bit at bit 0
      current_value: 0,
      current_value_pos: 0,
      generated_line: 1,
    }
  }
}

impl MappingsDecoder<'_> {
  #[verifier::prophetic]
  pub closed spec fn inv(&self) -> bool {
    &&& self.mappings_iter.obeys_prophetic_iter_laws()
    &&& self.mappings_iter.decrease() is Some
    &&& self.current_value_pos <= 68
    &&& self.generated_line as int + self.mappings_iter.remaining().len() <= u32::MAX
    &&& self.current_data_pos as int + self.mappings_iter.remaining().len() <= u32::MAX
  }

  fn next(&mut self) -> Option<Mapping>
    requires old(self).inv()
    ensures final(self).inv()
  {
    loop
      invariant self.inv()
      decreases self.mappings_iter.decrease()->0
    { match self.mappings_iter.next() { None => break, Some(c) => {
      let value = B64[*c as usize];
      if value == ERR {
        continue;
      }
      if (value & COM) != 0 {
        let mut mapping = Mapping {
          generated_line: self.generated_line,
          generated_column: self.current_data[0],
          original: None,
        };
        let current_data_pos = self.current_data_pos;
        self.current_data_pos = 0;
        if value == SEM {
          self.generated_line += 1;
          self.current_data[0] = 0;
        }
        match current_data_pos {
          1 => return Some(mapping),
          4 => {
            mapping.original = Some(OriginalLocation {
              source_index: self.current_data[1],
              original_line: self.current_data[2],
              original_column: self.current_data[3],
              name_index: None,
            });
            return Some(mapping);
          }
          5 => {
            mapping.original = Some(OriginalLocation {
              source_index: self.current_data[1],
              original_line: self.current_data[2],
              original_column: self.current_data[3],
              name_index: Some(self.current_data[4]),
            });
            return Some(mapping);
          }
          _ => (),
        };
      } else if (value & CONTINUATION_BIT) == 0 {
        // last sextet
        if self.current_value_pos < 64 {
          self.current_value |= (value as i64) << self.current_value_pos;
        }
        let final_value = if (self.current_value & 1) != 0 {
          { proof { let x = self.current_value; assert((x >> 1) > -0x4000_0000_0000_0001i64 && (x >> 1) < 0x4000_0000_0000_0000i64) by (bit_vector); } -(self.current_value >> 1) }
        } else {
          self.current_value >> 1
        };
        proof { let x = self.current_value; assert((x >> 1) > -0x4000_0000_0000_0001i64 && (x >> 1) < 0x4000_0000_0000_0000i64) by (bit_vector); }
        assert(-0x4000_0000_0000_0000 <= final_value <= 0x4000_0000_0000_0000);
        if self.current_data_pos < 5 {
          self.current_data[self.current_data_pos] =
            (self.current_data[self.current_data_pos] as i64 + final_value)
              as u32; // truncate
        }
        self.current_data_pos += 1;
        self.current_value_pos = 0;
        self.current_value = 0;
      } else {
        if self.current_value_pos < 64 {
          self.current_value |=
            ((value & DATA_MASK) as i64) << self.current_value_pos;
          self.current_value_pos += 5;
        }
      }
    }}}

    // end current segment
    let current_data_pos = self.current_data_pos;
    self.current_data_pos = 0;
    match current_data_pos {
      1 => {
        return Some(Mapping {
          generated_line: self.generated_line,
          generated_column: self.current_data[0],
          original: None,
        })
      }
      4 => {
        return Some(Mapping {
          generated_line: self.generated_line,
          generated_column: self.current_data[0],
          original: Some(OriginalLocation {
            source_index: self.current_data[1],
            original_line: self.current_data[2],
            original_column: self.current_data[3],
            name_index: None,
          }),
        })
      }
      5 => {
        return Some(Mapping {
          generated_line: self.generated_line,
          generated_column: self.current_data[0],
          original: Some(OriginalLocation {
            source_index: self.current_data[1],
            original_line: self.current_data[2],
            original_column: self.current_data[3],
            name_index: Some(self.current_data[4]),
          }),
        })
      }
      _ => (),
    }

    None
  }
}

} // verus!
fn main() {}
