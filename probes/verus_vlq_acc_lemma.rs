use vstd::prelude::*;
verus! {

pub open spec fn b64(i: int) -> u8 {
  if i < 26 { (65 + i) as u8 } else if i < 52 { (97 + i - 26) as u8 } else if i < 62 { (48 + i - 52) as u8 } else if i == 62 { 43u8 } else { 47u8 }
}
pub open spec fn tbl(c: u8) -> u8 {
  if 65 <= c <= 90 { (c - 65) as u8 } else if 97 <= c <= 122 { (c - 97 + 26) as u8 } else if 48 <= c <= 57 { (c - 48 + 52) as u8 }
  else if c == 43 { 62u8 } else if c == 47 { 63u8 } else if c == 44 { 0x40u8 } else if c == 59 { 0x41u8 } else { 0x42u8 }
}
pub proof fn lemma_tbl_b64(i: int) requires 0 <= i < 64 ensures tbl(b64(i)) == i {}

pub open spec fn vlq_digits(num: nat) -> Seq<u8>
  decreases num
{
  if num / 32 > 0 { seq![b64((num % 32 + 32) as int)] + vlq_digits(num / 32) } else { seq![b64((num % 32) as int)] }
}

pub struct VS { pub val: i64, pub vpos: usize }

pub open spec fn acc_digit(s: VS, v: u8) -> (VS, Option<i64>) {
  if (v & 0x20u8) == 0 {
    let cv = if s.vpos < 64 { s.val | ((v as i64) << s.vpos) } else { s.val };
    (VS { val: 0, vpos: 0 }, Some(cv))
  } else {
    if s.vpos < 64 { (VS { val: s.val | (((v & 0x1fu8) as i64) << s.vpos), vpos: (s.vpos + 5) as usize }, None) } else { (s, None) }
  }
}
pub open spec fn acc_run(s: VS, ds: Seq<u8>) -> Option<i64>
  decreases ds.len()
{
  if ds.len() == 0 { None } else {
    let (s2, r) = acc_digit(s, tbl(ds[0]));
    if ds.len() == 1 { r } else if r is Some { None } else { acc_run(s2, ds.skip(1)) }
  }
}

pub proof fn lemma_acc_vlq(n: u64, val: i64, vpos: usize)
  requires vpos <= 30, vpos % 5 == 0, n < (1u64 << ((35 - vpos) as u64))
  ensures acc_run(VS { val, vpos }, vlq_digits(n as nat)) == Some(val | ((n as i64) << vpos))
  decreases n
{
  let d = (n % 32) as u8;
  let rest = (n / 32) as u64;
  let p = vpos as u64;
  assert(n & 31 == n % 32 && n >> 5 == n / 32) by (bit_vector);
  if rest > 0 {
    let v = (d + 32) as u8;
    lemma_tbl_b64(v as int);
    assert((v & 0x20u8) != 0 && (v & 0x1fu8) == d) by (bit_vector) requires d < 32, v == d + 32;
    let val2 = val | ((d as i64) << vpos);
    assert(rest < (1u64 << ((30 - p) as u64))) by (bit_vector) requires p <= 30, n < (1u64 << ((35 - p) as u64)), rest == n >> 5;
    assert(p < 30) by (bit_vector) requires p <= 30, n < (1u64 << ((35 - p) as u64)), (n >> 5) > 0;
    lemma_acc_vlq(rest, val2, (vpos + 5) as usize);
    let ds = vlq_digits(n as nat);
    assert(ds.skip(1) == vlq_digits(rest as nat));
    assert(ds.len() > 1);
    assert((val | ((d as i64) << p)) | ((rest as i64) << ((p + 5) as u64)) == val | ((n as i64) << p)) by (bit_vector)
      requires d as u64 == n & 31, rest == n >> 5, p <= 30, n < (1u64 << ((35 - p) as u64));
  } else {
    lemma_tbl_b64(d as int);
    assert((d & 0x20u8) == 0) by (bit_vector) requires d < 32;
    assert(d as u64 == n);
  }
}

} // verus!
fn main() {}
