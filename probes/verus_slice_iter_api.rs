use vstd::prelude::*;
use std::slice::Iter;
use vstd::std_specs::iter::IteratorSpec;
verus! {
pub struct D<'a> { it: Iter<'a, u8>, n: u32 }
#[verifier::prophetic]
pub open spec fn rem<'a>(it: Iter<'a, u8>) -> Seq<u8> { it.remaining().map_values(|x: &u8| *x) }
impl<'a> D<'a> {
  fn step(&mut self) -> (r: Option<u8>)
    requires old(self).it.obeys_prophetic_iter_laws()
    ensures
      rem(old(self).it).len() == 0 ==> r is None,
      rem(old(self).it).len() > 0 ==> r == Some(rem(old(self).it)[0]) && rem(final(self).it) == rem(old(self).it).skip(1),
  {
    match self.it.next() { None => None, Some(c) => Some(*c) }
  }
  fn run(&mut self) -> (r: u32) 
    requires old(self).it.obeys_prophetic_iter_laws(), old(self).it.decrease() is Some
  {
    loop 
      invariant self.it.obeys_prophetic_iter_laws(), self.it.decrease() is Some
      decreases (match self.it.decrease() { Some(n) => n, None => 0 })
    {
      match self.it.next() { None => break, Some(c) => {
        if *c == 5 { continue; }
        if self.n < 100 { self.n += 1; }
      } }
    }
    self.n
  }
}
fn mk<'a>(s: &'a str) -> (d: D<'a>) 
  ensures d.it.obeys_prophetic_iter_laws(), d.it.decrease() is Some
{ D { it: s.as_bytes().iter(), n: 0 } }
} // verus!
fn main() {}
