use vstd::prelude::*;
use vstd::utf8::*;
use vstd::string::StringSliceAdditionalSpecFns;
use vstd::slice::SliceIndexSpec;
use std::borrow::Cow;
use std::sync::Arc;
use std::ops::Index;
use std::slice::SliceIndex;
verus! {
broadcast use {vstd::string::group_string_axioms, vstd::utf8::group_utf8_lib};

pub assume_specification<I: SliceIndex<str>>[<str as Index<I>>::index](s: &str, r: I) -> (out: &<I as SliceIndex<str>>::Output)
  ensures r.index_postcondition(s, out);

pub uninterp spec fn cow_target<'a, 'b, B: ?Sized + ToOwned>(c: &'b Cow<'a, B>) -> &'b B;
pub assume_specification<'a, 'b, B: ?Sized + ToOwned>[<Cow<'a, B> as std::ops::Deref>::deref](c: &'b Cow<'a, B>) -> (r: &'b B)
  ensures r == cow_target(c);
// ---- spec: the reference replacement model, from the property statement ----
pub struct RS { pub start: u32, pub end: u32, pub content: Seq<u8> }
pub open spec fn min2(a: int, b: int) -> int { if a < b { a } else { b } }
pub open spec fn max2(a: int, b: int) -> int { if a > b { a } else { b } }
pub open spec fn splice(inner: Seq<u8>, rs: Seq<RS>, pos: int) -> Seq<u8>
  decreases rs.len()
{
  if rs.len() == 0 { inner.subrange(pos, inner.len() as int) }
  else {
    let r = rs[0];
    (if pos < r.start { inner.subrange(pos, min2(r.start as int, inner.len() as int)) } else { Seq::<u8>::empty() })
      + r.content
      + splice(inner, rs.skip(1), min2(max2(pos, r.end as int), inner.len() as int))
  }
}
/// positions are on char boundaries of the inner text or beyond its end
pub open spec fn pos_ok(inner: Seq<u8>, p: u32) -> bool { p >= inner.len() || is_char_boundary(inner, p as int) }

pub trait Source {
  fn source(&self) -> Cow<str>;
}
pub enum ReplacementEnforce { Pre, Normal, Post }
struct Replacement {
  start: u32,
  end: u32,
  content: String,
  name: Option<String>,
  enforce: ReplacementEnforce,
}
pub struct ReplaceSource<T> {
  inner: Arc<T>,
  replacements: Vec<Replacement>,
}
spec fn rview(r: &Replacement) -> RS { RS { start: r.start, end: r.end, content: encode_utf8(r.content@) } }
spec fn rviews(v: Seq<&Replacement>) -> Seq<RS> { v.map_values(|r: &Replacement| rview(r)) }

impl<T: Source> ReplaceSource<T> {
  #[verifier::external_body]
  fn sorted_replacement(&self) -> (v: Vec<&Replacement>)
    ensures forall|i: int| 0 <= i < v@.len() ==> #[trigger] self.replacements@.contains(*v@[i])
  { unimplemented!() }

  pub closed spec fn dom_ok(&self, ib: Seq<u8>) -> bool {
    ib.len() < 0x1_0000_0000 && forall|r: Replacement| #[trigger] self.replacements@.contains(r) ==> r.start <= r.end && pos_ok(ib, r.start) && pos_ok(ib, r.end)
  }

  fn source(&self) -> (res: Cow<str>)
  {
    let inner_source_code = self.inner.source();
    let ghost ib = cow_target(&inner_source_code).spec_bytes();
    assume(self.dom_ok(ib));   // prototype: becomes a `requires` once Source::source carries a spec view

    // mut_string_push_str is faster that vec join
    // concatenate strings benchmark, see https://github.com/hoodie/concatenation_benchmarks-rs
    let replacements = self.sorted_replacement();
    if replacements.is_empty() {
      return inner_source_code;
    }
    let mut source_code = String::new();
    let mut inner_pos = 0;
    let ghost rs = rviews(replacements@);
    proof {
      assert(rs.skip(0) =~= rs);
      assert(encode_utf8(source_code@) =~= Seq::<u8>::empty());
      assert(Seq::<u8>::empty() + splice(ib, rs, 0) =~= splice(ib, rs, 0));
    }
    for replacement in it: replacements.iter()
      invariant
        ib == cow_target(&inner_source_code).spec_bytes(), self.dom_ok(ib), rs == rviews(replacements@),
        forall|i: int| 0 <= i < replacements@.len() ==> #[trigger] self.replacements@.contains(*replacements@[i]),
        inner_pos <= ib.len(), pos_ok(ib, inner_pos),
        encode_utf8(source_code@) + splice(ib, rs.skip(it.index@ as int), inner_pos as int) == splice(ib, rs, 0),
    {
      let ghost i = it.index@ as int;
      let ghost r = rs[i];
      let ghost sc0 = encode_utf8(source_code@);
      let ghost ch0 = source_code@;
      let ghost pos0 = inner_pos as int;
      proof {
        assert(*replacement == replacements@[i]);
        assert(r == rview(*replacement));
        assert(self.replacements@.contains(**replacement));
        assert(rs.skip(i)[0] == r);
        assert(rs.skip(i).skip(1) =~= rs.skip(i + 1));
      }
      if inner_pos < replacement.start {
        let end_pos = (replacement.start as usize).min(inner_source_code.len());
        let piece = &inner_source_code[inner_pos as usize..end_pos];
        source_code.push_str(piece);
        proof {
          assert(piece.spec_bytes() =~= ib.subrange(pos0, min2(r.start as int, ib.len() as int)));
          encode_utf8_concat(ch0, piece@);
        }
      }
      let ghost sc1 = encode_utf8(source_code@);
      proof { assert(sc1 =~= sc0 + (if pos0 < r.start { ib.subrange(pos0, min2(r.start as int, ib.len() as int)) } else { Seq::<u8>::empty() })); }
      source_code.push_str(&replacement.content);
      #[allow(clippy::manual_clamp)]
      {
        inner_pos = inner_pos
          .max(replacement.end)
          .min(inner_source_code.len() as u32);
      }
    }
    let ghost chf = source_code@;
    let tail = &inner_source_code[inner_pos as usize..inner_source_code.len()];
    proof {
      assert(rs.skip(rs.len() as int) =~= Seq::<RS>::empty());
      assert(tail.spec_bytes() =~= ib.subrange(inner_pos as int, ib.len() as int));
      encode_utf8_concat(chf, tail@);
    }
    source_code.push_str(
      &inner_source_code[inner_pos as usize..inner_source_code.len()],
    );
    assert(encode_utf8(source_code@) =~= splice(ib, rs, 0));

    source_code.into()
  }
}
} // verus!
fn main() {}
