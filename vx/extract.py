"""Mechanical extraction of repository items into Verus units.

Reads /repo/src/<file>.rs on every run, cuts items out by anchor with a brace matcher and emits
them byte-for-byte, inserting only (a) contract clauses / proof hints / ghost snapshots from a
sidecar at anchored positions and (b) the declared textual rules (DESIGN 3.1).  Every generated
line carries an origin, so a Verus diagnostic can be turned back into (repo file:line | clause id).

Anything that does not match exactly raises Lost -> the driver reports UNDECIDED (exit 2), never a
violation.
"""
import hashlib
import re


class Lost(Exception):
    """anchor lost / rule no longer matches"""


# ----------------------------------------------------------------------------------------------
# lexical helpers


def code_mask(s):
    """mask[i] is True where s[i] is code (not comment, string, char literal)."""
    n = len(s)
    mask = [True] * n
    i = 0
    while i < n:
        c = s[i]
        if c == "/" and s.startswith("//", i):
            j = s.find("\n", i)
            j = n if j < 0 else j
            for k in range(i, j):
                mask[k] = False
            i = j
            continue
        if c == "/" and s.startswith("/*", i):
            depth = 1
            j = i + 2
            while j < n and depth:
                if s.startswith("/*", j):
                    depth += 1
                    j += 2
                elif s.startswith("*/", j):
                    depth -= 1
                    j += 2
                else:
                    j += 1
            for k in range(i, j):
                mask[k] = False
            i = j
            continue
        if c == '"' or (c == "b" and s.startswith('b"', i) and (i == 0 or not (s[i - 1].isalnum() or s[i - 1] == "_"))):
            j = i + (2 if c == "b" else 1)
            while j < n and s[j] != '"':
                j += 2 if s[j] == "\\" else 1
            j += 1
            # keep the delimiters as code so that callers can still see a literal is there
            for k in range(i + 1, j - 1):
                mask[k] = False
            i = j
            continue
        if c == "'":
            m = re.match(r"'(\\.[^']*|[^\\'])'", s[i : i + 12])
            if m:
                for k in range(i + 1, i + len(m.group(0)) - 1):
                    mask[k] = False
                i += len(m.group(0))
                continue
        i += 1
    return mask


def match_close(s, mask, i):
    """s[i] is an opening bracket at a code position; return index of its partner."""
    pairs = {"{": "}", "(": ")", "[": "]"}
    depth = 0
    j = i
    while j < len(s):
        if mask[j]:
            ch = s[j]
            if ch in pairs:
                depth += 1
            elif ch in ")}]":
                depth -= 1
                if depth == 0:
                    return j
        j += 1
    raise Lost("unbalanced bracket")


def ws_regex(anchor):
    """literal anchor -> regex that tolerates any whitespace difference"""
    toks = re.findall(r"\w+|[^\w\s]", anchor)
    out = []
    for a, b in zip(toks, toks[1:] + [""]):
        out.append(re.escape(a))
        if b:
            # two adjacent word tokens need at least one blank between them
            out.append(r"\s+" if (re.match(r"\w", a[-1]) and re.match(r"\w", b[0])) else r"\s*")
    return "".join(out)


# ----------------------------------------------------------------------------------------------
# text buffer with per-line origins


class Buf:
    def __init__(self, lines, origins):
        self.lines = list(lines)
        self.origins = list(origins)

    @property
    def text(self):
        return "\n".join(self.lines)

    def _starts(self):
        st = []
        o = 0
        for l in self.lines:
            st.append(o)
            o += len(l) + 1
        return st

    def pos(self, off):
        st = self._starts()
        lo = 0
        for i, s in enumerate(st):
            if s <= off:
                lo = i
            else:
                break
        return lo, off - st[lo]

    def replace_span(self, a, b, new, origin_kind):
        """replace text[a:b] by new; lines touched get origin (origin_kind, first-touched-origin)"""
        (la, ca), (lb, cb) = self.pos(a), self.pos(b)
        head, tail = self.lines[la][:ca], self.lines[lb][cb:]
        new_lines = (head + new + tail).split("\n")
        base = self.origins[la]
        o = (origin_kind[0], origin_kind[1], base)
        self.lines[la : lb + 1] = new_lines
        self.origins[la : lb + 1] = [o] * len(new_lines)

    def insert_at(self, off, new_lines, origin):
        """insert whole lines at text offset off (splitting the line there when needed)"""
        l, c = self.pos(off)
        line = self.lines[l]
        o = self.origins[l]
        if line[:c].strip() == "":
            # insert before this line
            self.lines[l:l] = new_lines
            self.origins[l:l] = [origin] * len(new_lines)
        elif line[c:].strip() == "":
            self.lines[l + 1 : l + 1] = new_lines
            self.origins[l + 1 : l + 1] = [origin] * len(new_lines)
        else:
            self.lines[l : l + 1] = [line[:c]] + new_lines + [line[c:]]
            self.origins[l : l + 1] = [o] + [origin] * len(new_lines) + [o]


# ----------------------------------------------------------------------------------------------
# items


class Item:
    def __init__(self, relpath, anchor, buf, first_line, sha):
        self.relpath, self.anchor, self.buf, self.first_line, self.sha = relpath, anchor, buf, first_line, sha
        self.rules_applied = []
        self.hints_lost = []
        self.clauses = []
        self.raw_text = buf.text  # as cut from the repository, before any rule or insertion

    # -- searching -----------------------------------------------------------------------------
    def _code_find(self, regex, lo=0, hi=None, what=None, nth=None, flags=re.S):
        s = self.buf.text
        mask = code_mask(s)
        hi = len(s) if hi is None else hi
        ms = [m for m in re.finditer(regex, s, flags) if lo <= m.start() and m.end() <= hi and mask[m.start()]]
        if nth is None:
            if len(ms) != 1:
                raise Lost(f"{self.relpath}: anchor {what or regex!r}: {len(ms)} matches (need exactly 1)")
            return ms[0]
        if len(ms) < nth:
            raise Lost(f"{self.relpath}: anchor {what or regex!r}: occurrence {nth} not found ({len(ms)} present)")
        return ms[nth - 1]

    def fn_span(self, name):
        """(sig_start, body_open, body_close) offsets of `fn name`"""
        s = self.buf.text
        mask = code_mask(s)
        m = self._code_find(r"\bfn\s+" + re.escape(name) + r"\b", what="fn " + name)
        # parameter list
        p = s.index("(", m.end())
        q = match_close(s, mask, p)
        j = q + 1
        depth = 0
        while j < len(s):
            if mask[j]:
                if s[j] in "([":
                    depth += 1
                elif s[j] in ")]":
                    depth -= 1
                elif s[j] == "{" and depth == 0:
                    break
                elif s[j] == ";" and depth == 0:
                    raise Lost(f"fn {name} has no body")
            j += 1
        return m.start(), j, match_close(s, mask, j)

    def loop_span(self, fn, n):
        """(keyword_start, body_open, body_close) of the n-th loop (text order) in fn"""
        s = self.buf.text
        mask = code_mask(s)
        _, bo, bc = self.fn_span(fn)
        ms = [m for m in re.finditer(r"\b(loop|while|for)\b", s) if bo < m.start() < bc and mask[m.start()]]
        # `for` inside `impl X for Y` / HRTB cannot occur inside a body; closures' `for<'a>` neither
        if len(ms) < n:
            raise Lost(f"fn {fn}: loop {n} not found ({len(ms)} loops)")
        k = ms[n - 1]
        j = k.end()
        depth = 0
        while j < len(s):
            if mask[j]:
                if s[j] in "([":
                    depth += 1
                elif s[j] in ")]":
                    depth -= 1
                elif s[j] == "{" and depth == 0:
                    break
            j += 1
        return k.start(), j, match_close(s, mask, j)

    def count_loops(self, fn):
        s = self.buf.text
        mask = code_mask(s)
        _, bo, bc = self.fn_span(fn)
        return len([m for m in re.finditer(r"\b(loop|while|for)\b", s) if bo < m.start() < bc and mask[m.start()]])

    # -- rules (declared rewrites) -------------------------------------------------------------
    def rule_opt(self, name, regex, repl, fn=None):
        """apply a declared rule at every site where it matches (possibly none); returns the number of sites"""
        n = 0
        while True:
            try:
                self.rule(name, regex, repl, count=None, fn=fn)
                n += 1
            except Lost:
                return n

    def rule(self, name, regex, repl, count=1, fn=None):
        s = self.buf.text
        lo, hi = 0, len(s)
        if fn:
            lo, _, hi = self.fn_span(fn)
        mask = code_mask(s)
        ms = [m for m in re.finditer(regex, s, re.S) if lo <= m.start() and m.end() <= hi + 1 and mask[m.start()]]
        if count is None:
            if not ms:
                raise Lost(f"{self.relpath}: rule {name}: no site")
            ms = ms[:1]
        elif len(ms) != count:
            raise Lost(f"{self.relpath}: rule {name}: expected {count} site(s), found {len(ms)}")
        for m in reversed(ms):
            new = m.expand(repl) if isinstance(repl, str) else repl(m)
            l, _ = self.buf.pos(m.start())
            self.rules_applied.append({"rule": name, "file": self.relpath, "line": self._repo_line(l), "from": m.group(0)[:120], "to": new[:160]})
            self.buf.replace_span(m.start(), m.end(), new, ("rule", name))
        return self

    def _repo_line(self, l):
        o = self.buf.origins[l]
        while o and o[0] != "repo":
            o = o[2] if len(o) > 2 and isinstance(o[2], tuple) else None
        return o[2] if o else None

    # -- insertions ----------------------------------------------------------------------------
    def sig(self, fn, clauses, ret=None):
        """contract clauses on fn; clauses = list of (id, kind, text).  ret names the return value."""
        if ret:
            s = self.buf.text
            ss, bo, _ = self.fn_span(fn)
            m = re.search(r"->\s*(.+?)\s*$", s[ss:bo], re.S)
            if not m:
                raise Lost(f"fn {fn}: no return type to name")
            a, b = ss + m.start(1), ss + m.end(1)
            self.rules_applied.append({"rule": "S1", "file": self.relpath, "fn": fn, "from": s[a:b], "to": f"({ret}: {s[a:b]})"})
            self.buf.replace_span(a, b, f"({ret}: {s[a:b]})", ("rule", "S1"))
        _, bo, _ = self.fn_span(fn)
        self._insert_clauses(bo, clauses, fn)
        return self

    def loop(self, fn, n, clauses):
        _, bo, _ = self.loop_span(fn, n)
        self._insert_clauses(bo, clauses, fn)
        return self

    def _insert_clauses(self, off, clauses, fn):
        # insert in reverse so that offsets stay valid; all go right before the `{` at off
        lines, origins = [], []
        prev_kw = None
        for cl in clauses:
            cid, kind, text = cl[0], cl[1], cl[2].strip()
            mk = re.match(r"(requires|ensures|invariant_except_break|invariant|decreases)\b", text)
            if mk:
                prev_kw = mk.group(1)
            elif prev_kw:
                text = prev_kw + " " + text
            else:
                raise Lost(f"clause {cid}: no contract keyword")
            if prev_kw != "decreases" and not text.rstrip().endswith(","):
                text = text.rstrip() + ","
            tags = frozenset(cl[3]) if len(cl) > 3 and cl[3] is not None else None
            self.clauses.append({"id": cid, "kind": kind, "fn": fn, "tags": sorted(tags) if tags else None})
            for t in text.rstrip("\n").split("\n"):
                lines.append("    " + t)
                origins.append(("clause", cid, kind, fn, tags))
        l, c = self.buf.pos(off)
        line, o = self.buf.lines[l], self.buf.origins[l]
        before, after = line[:c], line[c:]
        new_lines = ([before] if before.strip() else []) + lines + [after]
        new_orig = ([o] if before.strip() else []) + origins + [o]
        self.buf.lines[l : l + 1] = new_lines
        self.buf.origins[l : l + 1] = new_orig

    def _org(self, cid, kind, fn, tags):
        tags = frozenset(tags) if tags is not None else None
        self.clauses.append({"id": cid, "kind": kind, "fn": fn, "tags": sorted(tags) if tags else None})
        return ("clause", cid, kind, fn, tags)

    def body_start(self, fn, cid, kind, text, tags=None):
        _, bo, _ = self.fn_span(fn)
        self.buf.insert_at(bo + 1, ["    " + t for t in text.split("\n")], self._org(cid, kind, fn, tags))
        return self

    def loop_body_start(self, fn, n, cid, kind, text, tags=None):
        _, bo, _ = self.loop_span(fn, n)
        self.buf.insert_at(bo + 1, ["    " + t for t in text.split("\n")], self._org(cid, kind, fn, tags))
        return self

    def body_end(self, fn, cid, kind, text, tags=None):
        """before the closing brace of the body (after the last statement; only for bodies with no tail expression)"""
        _, _, bc = self.fn_span(fn)
        self.buf.insert_at(bc, ["    " + t for t in text.split("\n")], self._org(cid, kind, fn, tags))
        return self

    def at(self, fn, where, anchor, cid, kind, text, nth=None, regex=False, optional=None, tags=None):
        """insert before/after the statement matched by anchor inside fn.
        kind: 'hint' | 'ghost' (proof aids).  A lost hint anchor is recorded (degraded mode), not fatal,
        unless optional is False."""
        lo, _, hi = self.fn_span(fn)
        try:
            m = self._code_find(anchor if regex else ws_regex(anchor), lo, hi, what=anchor, nth=nth)
        except Lost as e:
            if optional is False:
                raise
            self.hints_lost.append({"id": cid, "fn": fn, "anchor": anchor, "why": str(e), "tags": sorted(tags) if tags else None})
            return self
        lines = ["    " + t for t in text.split("\n")]
        org = self._org(cid, kind, fn, tags)
        if where == "before":
            l, _ = self.buf.pos(m.start())
            off = self.buf._starts()[l]
            self.buf.insert_at(off, lines, org)
        else:
            l, _ = self.buf.pos(m.end() - 1)
            self.buf.lines[l + 1 : l + 1] = lines
            self.buf.origins[l + 1 : l + 1] = [org] * len(lines)
        return self


def cut_item(repo, relpath, anchor, end=None):
    """cut the item whose first line contains `anchor` (must be unique at code positions) up to its
    matching close brace or terminating semicolon; returns Item with byte-exact lines."""
    src = open(f"{repo}/{relpath}").read()
    mask = code_mask(src)
    occ = [m.start() for m in re.finditer(re.escape(anchor), src) if mask[m.start()]]
    if len(occ) != 1:
        raise Lost(f"{relpath}: item anchor {anchor!r}: {len(occ)} matches")
    i = occ[0]
    start = src.rfind("\n", 0, i) + 1
    j = i
    depth = 0
    endpos = None
    while j < len(src):
        if mask[j]:
            c = src[j]
            if c in "{[(":
                k = match_close(src, mask, j)
                if c == "{" and depth == 0:
                    endpos = k + 1
                    break
                j = k + 1
                continue
            if c == ";" and depth == 0:
                endpos = j + 1
                break
        j += 1
    if endpos is None:
        raise Lost(f"{relpath}: item {anchor!r} unterminated")
    text = src[start:endpos]
    first_line = src.count("\n", 0, start) + 1
    lines = text.split("\n")
    origins = [("repo", relpath, first_line + k) for k in range(len(lines))]
    sha = hashlib.sha256(text.encode()).hexdigest()
    return Item(relpath, anchor, Buf(lines, origins), first_line, sha)


def spec_canaries(buf):
    """insert a start-of-body `assert(false)` canary line into every `proof fn` of a spec buffer"""
    names = []
    k = 0
    while True:
        s = buf.text
        mask = code_mask(s)
        ms = [m for m in re.finditer(r"\bproof\s+fn\s+(\w+)", s) if mask[m.start()]]
        if k >= len(ms):
            break
        m = ms[k]
        k += 1
        p = s.index("(", m.end())
        j = match_close(s, mask, p) + 1
        depth = 0
        while j < len(s):
            if mask[j]:
                if s[j] in "([":
                    depth += 1
                elif s[j] in ")]":
                    depth -= 1
                elif s[j] == "{" and depth == 0:
                    break
            j += 1
        name = m.group(1)
        names.append(name)
        buf.insert_at(j + 1, ["    assert(false);"], ("clause", "canary." + name, "canary", name, None))
    return names


# ----------------------------------------------------------------------------------------------
# unit assembly


class Unit:
    def __init__(self, name, repo, verif):
        self.name, self.repo, self.verif = name, repo, verif
        self.parts = []  # ("raw", lines, origin) | ("item", Item)
        self.items = []
        self.header = ["use vstd::prelude::*;"]
        self.rlimit = None
        self.contracted = []  # (fn display name, relpath, clause ids)
        self.theorems = []
        self.spec_lemmas = []

    def use(self, line):
        self.header.append(line)

    def raw(self, text, origin, tags=None):
        self.parts.append(("raw", text.rstrip("\n").split("\n"), origin, frozenset(tags) if tags else None))

    def spec(self, relfile):
        p = f"{self.verif}/spec/{relfile}"
        lines = open(p).read().rstrip("\n").split("\n")
        buf = Buf(lines, [("spec", relfile, k + 1) for k in range(len(lines))])
        names = spec_canaries(buf)
        self.spec_lemmas += names
        self.parts.append(("spec", buf, relfile))

    def item(self, relpath, anchor):
        it = cut_item(self.repo, relpath, anchor)
        self.items.append(it)
        self.parts.append(("item", it))
        return it

    def method(self, relpath, impl_anchor, fn):
        """cut a single fn out of an impl block (the impl header/other methods are not emitted)"""
        whole = cut_item(self.repo, relpath, impl_anchor)
        ss, bo, bc = whole.fn_span(fn)
        la, _ = whole.buf.pos(ss)
        lb, cb = whole.buf.pos(bc)
        lines = whole.buf.lines[la : lb + 1]
        lines[-1] = lines[-1][: cb + 1]
        origins = whole.buf.origins[la : lb + 1]
        text = "\n".join(lines)
        it = Item(relpath, f"{impl_anchor} :: fn {fn}", Buf(lines, origins), origins[0][2], hashlib.sha256(text.encode()).hexdigest())
        self.items.append(it)
        self.parts.append(("item", it))
        return it

    def render(self, disabled=frozenset(), canaries=False, view=None):
        """-> (text, origins list per generated line (1-based index = line-1))"""
        out, org = [], []
        for h in self.header:
            out.append(h)
            org.append(("header",))
        out.append("verus! {")
        org.append(("header",))
        for p in self.parts:
            if p[0] == "raw":
                if view is not None and len(p) > 3 and p[3] is not None and view not in p[3]:
                    continue
                for k, l in enumerate(p[1]):
                    out.append(l)
                    org.append(p[2])
            elif p[0] == "spec":
                for l, o in zip(p[1].lines, p[1].origins):
                    if o[0] == "clause" and o[2] == "canary" and not canaries:
                        continue
                    out.append(l)
                    org.append(o)
            else:
                it = p[1]
                last_kw = None
                for l, o in zip(it.buf.lines, it.buf.origins):
                    if o[0] == "clause":
                        if o[1] in disabled:
                            continue
                        if o[2] == "canary" and not canaries:
                            continue
                        if view is not None and o[4] is not None and view not in o[4]:
                            continue
                        if o[2] == "contract":
                            mk = re.match(r"(\s*)(requires|ensures|invariant_except_break|invariant|decreases)\b", l)
                            if mk:
                                if mk.group(2) == last_kw:
                                    l = mk.group(1) + " " * len(mk.group(2)) + l[mk.end():]
                                last_kw = mk.group(2)
                    else:
                        last_kw = None
                    out.append(l)
                    org.append(o)
            out.append("")
            org.append(("blank",))
        out.append("} // verus!")
        org.append(("header",))
        out.append("fn main() {}")
        org.append(("header",))
        return "\n".join(out) + "\n", org


# ----------------------------------------------------------------------------------------------
# structural fingerprints: does a function still have the control structure the sidecar's proof was written for?

_FP = re.compile(r"\b(if|else|match|loop|while|for|return|break|continue)\b|([A-Za-z_]\w*)\s*(?:::<[^>]*>)?\s*\(|(=>)")


def fn_fingerprints(raw_text):
    """{fn name: sha1 of its sequence of control keywords, match arms and called names}"""
    out = {}
    mask = code_mask(raw_text)
    for m in re.finditer(r"\bfn\s+(\w+)", raw_text):
        if not mask[m.start()]:
            continue
        try:
            p = raw_text.index("(", m.end())
            j = match_close(raw_text, mask, p) + 1
            depth = 0
            while j < len(raw_text):
                if mask[j]:
                    c = raw_text[j]
                    if c in "([":
                        depth += 1
                    elif c in ")]":
                        depth -= 1
                    elif c == "{" and depth == 0:
                        break
                    elif c == ";" and depth == 0:
                        j = -1
                        break
                j += 1
            if j < 0 or j >= len(raw_text):
                continue
            k = match_close(raw_text, mask, j)
        except (ValueError, Lost):
            continue
        toks = []
        for t in _FP.finditer(raw_text, j, k):
            if mask[t.start()]:
                toks.append(t.group(1) or t.group(2) or t.group(3))
        out[m.group(1)] = hashlib.sha1(" ".join(toks).encode()).hexdigest()[:16]
    return out
