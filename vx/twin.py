"""build and run the executable twin (witness search / replay) against a repo tree"""
import os
import re
import shutil
import subprocess

CACHE = None


def build(repo, verif, workdir, log):
    """returns path of the twin binary or raises RuntimeError.

    The crate under test is copied to a FIXED path per property (.cache/twin-<key>/repo) so that cargo rebuilds it in
    place: a path dependency at a fresh temporary path would be a new crate for cargo on every run and the target
    directory would grow without bound.  A lock file serialises concurrent builds for the same key."""
    import fcntl
    key = os.path.basename(workdir).split("-")[0] or "x"
    base = os.path.join(verif, ".cache", "twin-" + key)
    os.makedirs(base, exist_ok=True)
    if base not in _HELD:  # a second build in the same process (one witness search handing over to another) must not wait for itself
        lockf = open(os.path.join(base, ".lock"), "w")
        fcntl.flock(lockf, fcntl.LOCK_EX)
        _HELD[base] = lockf
        _LOCKS.append(lockf)  # held until the process exits (build + searches + replay)
    src = os.path.join(verif, "twin")
    dst = os.path.join(base, "twin")
    rcopy = os.path.join(base, "repo")
    if os.path.exists(dst):
        shutil.rmtree(dst)
    shutil.copytree(src, dst, ignore=shutil.ignore_patterns("target", "Cargo.toml.in"))
    repo = os.path.abspath(repo)
    toml = open(os.path.join(repo, "Cargo.toml")).read()
    toml = re.sub(r"\[\[bench\]\][^\[]*", "", toml)
    # cargo decides freshness by mtime: a tree whose files are OLDER than the last build (a worktree of an earlier
    # commit, a restored backup) would silently reuse the previous binary.  The copy is therefore keyed by content:
    # unchanged content keeps the copy (and the build), changed content is written with fresh mtimes.
    import hashlib
    h = hashlib.sha256(toml.encode())
    for root, _, files in sorted(os.walk(os.path.join(repo, "src"))):
        for f in sorted(files):
            h.update(os.path.relpath(os.path.join(root, f), repo).encode())
            h.update(open(os.path.join(root, f), "rb").read())
    digest = h.hexdigest()
    stamp = os.path.join(base, ".srchash")
    if not (os.path.exists(rcopy) and os.path.exists(stamp) and open(stamp).read() == digest):
        if os.path.exists(rcopy):
            shutil.rmtree(rcopy)
        os.makedirs(rcopy)
        shutil.copytree(os.path.join(repo, "src"), os.path.join(rcopy, "src"), copy_function=shutil.copyfile)
        open(os.path.join(rcopy, "Cargo.toml"), "w").write(toml)
        open(stamp, "w").write(digest)
    open(os.path.join(dst, "Cargo.toml"), "w").write(open(os.path.join(src, "Cargo.toml.in")).read().replace("@REPO@", rcopy))
    m = os.path.join(dst, "src", "main.rs")
    txt = open(m).read().replace("@REPO@", rcopy)
    open(m, "w").write(txt)
    for f in ("Cargo.lock", "rust-toolchain.toml"):
        if os.path.exists(os.path.join(repo, f)):
            shutil.copy(os.path.join(repo, f), dst)
    target = os.path.join(base, "target")
    os.makedirs(target, exist_ok=True)
    env = dict(os.environ, CARGO_TARGET_DIR=target, CARGO_NET_OFFLINE="true", RUSTFLAGS="-Awarnings")
    p = subprocess.run(["cargo", "build", "--offline", "-q"], cwd=dst, env=env, capture_output=True, text=True, timeout=900)
    if p.returncode != 0:
        raise RuntimeError("twin build failed: " + p.stderr[-1500:])
    return os.path.join(target, "debug", "twin")


_LOCKS = []
_HELD = {}


def run(binary, args, timeout=300, crit="bytes"):
    try:
        p = subprocess.run([binary] + [str(a) for a in args], capture_output=True, text=True, timeout=timeout, env=dict(os.environ, TWIN_CRIT=crit))
    except subprocess.TimeoutExpired as e:
        # a search that never returns: the last CASE marker names the input the real code hangs on
        out = e.stdout.decode() if isinstance(e.stdout, bytes) else (e.stdout or "")
        cases = re.findall(r"^CASE (\S*)$", out, re.M)
        if cases:
            return {"rc": -9, "found": True, "kind": "tokens", "input": cases[-1], "detail": f"the real code did not return within {timeout}s on this input (hang)",
                    "tried": len(cases), "stdout": out[-500:], "stderr": ""}
        raise
    out = p.stdout
    if p.returncode < 0 or p.returncode == 134:
        # the process was killed by a signal (SIGABRT: std's unsafe-precondition check, or a double panic):
        # the last CASE marker names the input
        cases = re.findall(r"^CASE (\S*)$", out, re.M)
        if cases:
            return {"rc": p.returncode, "found": True, "kind": "abort", "input": cases[-1],
                    "detail": "the process aborted on this input: " + (p.stderr.strip().splitlines() or ["signal"])[0][:300],
                    "tried": len(cases), "stdout": out[-500:], "stderr": p.stderr[-500:]}
    w = re.search(r"^WITNESS kind=(\S+) input=(.*)$", out, re.M)
    d = re.search(r"^DETAIL (.*)$", out, re.M)
    t = re.search(r"tried=(\d+)|^TRIED (\d+)", out, re.M)
    return {"rc": p.returncode, "found": bool(w), "kind": w.group(1) if w else None, "input": w.group(2) if w else None,
            "detail": d.group(1) if d else None, "tried": int((t.group(1) or t.group(2))) if t else 0, "stdout": out[-2000:], "stderr": p.stderr[-500:]}
