"""Verus stage: extract a unit from /repo, verify the view of one property, run canaries, name failures."""
import importlib
import os
import re
import time

from vx.extract import Lost, Unit, code_mask, match_close
from vx.verus import run_verus


class Failure:
    def __init__(self, cls, name, message, where, rendered, clause=None, strength="hard"):
        self.cls = cls  # contract | hint | canary | spec
        self.name, self.message, self.where, self.rendered, self.clause = name, message, where, rendered, clause
        # hard: postcondition / callee precondition / safety / termination / table lemma / Kani FAILED
        # soft: loop invariant (a proof-internal statement that a harmless reordering can falsify)
        self.strength = strength

    def to_json(self):
        return {"class": self.cls, "strength": self.strength, "obligation": self.name, "message": self.message, "where": self.where, "verifier_output": self.rendered}


class StageResult:
    def __init__(self, name, backend):
        self.name, self.backend = name, backend
        self.obligations = 0
        self.discharged = 0
        self.failures = []  # contract-level Failure
        self.undecided = []  # strings
        self.wall_s = 0.0
        self.solver_ms = 0
        self.details = {}
        self.bounded = None  # text when the stage is a bounded stand-in
        self.samples = []


def fn_map(text):
    """per generated line (0-based): display name of the enclosing fn ('Type::fn' or 'fn')"""
    mask = code_mask(text)
    nlines = text.count("\n") + 1
    line_of = []
    l = 0
    for ch in text:
        line_of.append(l)
        if ch == "\n":
            l += 1
    owner = [None] * nlines
    impls = []
    for m in re.finditer(r"\bimpl\b", text):
        if not mask[m.start()]:
            continue
        j = text.find("{", m.end())
        while j >= 0 and not mask[j]:
            j = text.find("{", j + 1)
        if j < 0:
            continue
        head = text[m.end():j]
        head = re.sub(r"^\s*<[^>]*>", "", head)
        if " for " in head:
            head = head.split(" for ", 1)[1]
        t = re.match(r"\s*([\w]+)", head)
        try:
            k = match_close(text, mask, j)
        except Lost:
            continue
        impls.append((j, k, t.group(1) if t else "?"))
    for m in re.finditer(r"\bfn\s+(\w+)", text):
        if not mask[m.start()]:
            continue
        try:
            p = text.index("(", m.end())
            q = match_close(text, mask, p)
        except (ValueError, Lost):
            continue
        j = q + 1
        depth = 0
        ok = False
        while j < len(text):
            if mask[j]:
                c = text[j]
                if c in "([":
                    depth += 1
                elif c in ")]":
                    depth -= 1
                elif c == "{" and depth == 0:
                    ok = True
                    break
                elif c == ";" and depth == 0:
                    break
            j += 1
        if not ok:
            continue
        try:
            k = match_close(text, mask, j)
        except Lost:
            continue
        name = m.group(1)
        for (a, b, t) in impls:
            if a < m.start() < b:
                name = t + "::" + name
        for ln in range(line_of[m.start()], line_of[k] + 1):
            owner[ln] = name  # inner fns come later in text order and overwrite
    return owner


def scan_assumptions(text, org):
    out = []
    pats = [r"assume_specification", r"external_body", r"\bassume\s*\(", r"\badmit\s*\(", r"verifier::external\b", r"\bunsafe\b",
            r"verifier::truncate", r"uninterp\s+spec", r"verifier::exec_allows_no_decreases_clause", r"axiom\s+fn", r"broadcast\s+axiom"]
    mask = code_mask(text)
    off = 0
    for i, line in enumerate(text.split("\n")):
        for p in pats:
            m = re.search(p, line)
            if m and mask[off + m.start()]:
                out.append({"gen_line": i + 1, "origin": origin_str(org[i]) if i < len(org) else "?", "text": line.strip()[:200]})
                break
        off += len(line) + 1
    return out


def origin_str(o):
    if not o:
        return "?"
    if o[0] == "repo":
        return f"{o[1]}:{o[2]}"
    if o[0] == "rule":
        return f"rule {o[1]} on {origin_str(o[2])}"
    if o[0] == "clause":
        return f"clause {o[1]}"
    if o[0] == "spec":
        return f"spec/{o[1]}:{o[2]}"
    if o[0] == "glue":
        return f"glue({o[1]})"
    return o[0]


def name_failure(unit_name, dg, org, owner):
    """-> Failure for one Verus diagnostic"""

    def o_of(sp):
        if not sp:
            return None
        i = sp["line_start"] - 1
        return org[i] if 0 <= i < len(org) else None

    def fn_of(sp):
        if not sp:
            return "?"
        i = sp["line_start"] - 1
        return owner[i] if 0 <= i < len(owner) and owner[i] else "?"

    prim = dg.primary()
    po = o_of(prim)
    where = origin_str(po)
    kind = dg.kind
    cls = "contract"
    clause = None
    if kind == "postcondition":
        sp = dg.labelled(r"failed this postcondition") or prim
        o = o_of(sp)
        if o and o[0] == "clause":
            clause = o[1]
            name = f"{unit_name}/{o[1]}"
        else:
            # a trait-level `ensures` (spec file) failing for one impl: the function is the one whose body end / exit the
            # diagnostic points at
            body = dg.labelled(r"at the end of the function body|at this exit")
            owner_fn = fn_of(body) if body else fn_of(sp)
            bo = o_of(body) if body else None
            impl_of = f"{bo[1]}:" if (bo and bo[0] == "repo") else ""
            name = f"{unit_name}/{impl_of}{owner_fn}.postcondition" + (f"[trait contract {origin_str(o)}]" if o and o[0] == "spec" else "")
        where = origin_str(o)
    elif kind == "precondition":
        sp = dg.labelled(r"failed precondition")
        o = o_of(sp)
        callee = o[1] if (o and o[0] == "clause") else (sp["text"][0]["text"].strip()[:80] if sp and sp.get("text") else "callee")
        if o and o[0] == "spec":
            callee = "spec:" + (sp["text"][0]["text"].strip()[:80] if sp.get("text") else "?")
        name = f"{unit_name}/{fn_of(prim)}.pre({callee})@{origin_str(po)}"
        if po and po[0] == "spec":
            cls = "spec"
        if po and po[0] == "clause" and po[2] in ("hint", "ghost"):
            # a lemma call inside a sidecar proof block whose precondition fails: a proof aid, never a verdict
            cls = "hint"
            clause = po[1]
    elif kind in ("invariant-preserved", "invariant-established", "invariant"):
        if po and po[0] == "clause":
            clause = po[1]
            name = f"{unit_name}/{po[1]}[{kind}]"
        else:
            name = f"{unit_name}/{fn_of(prim)}.{kind}"
    elif kind == "assertion":
        if po and po[0] == "clause":
            clause = po[1]
            name = f"{unit_name}/{po[1]}"
            cls = {"hint": "hint", "ghost": "hint", "canary": "canary"}.get(po[2], "contract")
        elif po and po[0] == "spec":
            name = f"{unit_name}/spec:{fn_of(prim)}.assert@{origin_str(po)}"
            cls = "spec"
        elif po and po[0] == "glue":
            name = f"{unit_name}/{fn_of(prim)}.assert"
        else:
            name = f"{unit_name}/{fn_of(prim)}.assert@{origin_str(po)}"
    else:
        name = f"{unit_name}/{fn_of(prim)}.{kind}@{origin_str(po)}"
        if po and po[0] == "spec":
            cls = "spec"
        if po and po[0] == "clause" and po[2] in ("hint", "ghost"):
            cls = "hint"
            clause = po[1]
    strength = "soft" if kind in ("invariant-preserved", "invariant-established", "invariant") else "hard"
    return Failure(cls, name, dg.message, where, dg.rendered, clause, strength)


def skeleton(u, repo):
    """does the extracted code still have the shape the sidecar was written for?  Functions that are extracted without
    a contract, or defined in the same repository file and called from extracted code without being extracted, are
    helpers the modular proof knows nothing about - a failed obligation may then be a missing contract, not a defect."""
    contracted = set()
    extracted = set()
    called = set()
    for it in u.items:
        text = it.buf.text
        mask = code_mask(text)
        for m in re.finditer(r"\bfn\s+(\w+)", text):
            if mask[m.start()]:
                extracted.add(m.group(1))
        for c in it.clauses:
            if c["kind"] == "contract":
                contracted.add(c["fn"])
        # calls that resolve inside the extracted file: free calls `f(..)`, `Self::f(..)`, `self.f(..)`;
        # `x.y.f(..)` on another receiver is a method of another type (glue / vstd must give it a spec or Verus rejects it)
        for m in re.finditer(r"(?:(?<![\w.:])|\bSelf::|\bself\.)(\w+)\s*\(", text):
            if mask[m.start()]:
                called.add(m.group(1))
    defined = set()
    for rel in sorted(set(it.relpath for it in u.items)):
        try:
            src = open(os.path.join(repo, rel)).read()
        except OSError:
            continue
        cut = src.find("#[cfg(test)]")
        src = src if cut < 0 else src[:cut]
        mk = code_mask(src)
        for m in re.finditer(r"\bfn\s+(\w+)", src):
            if mk[m.start()]:
                defined.add(m.group(1))
    uncontracted = sorted(f for f in extracted if f not in contracted and f in called and f != "main")
    missing = sorted(f for f in defined if f in called and f not in extracted and f not in ("new", "from", "fmt", "eq", "hash", "clone", "map", "source", "len", "next", "into", "push"))
    lost = [h["id"] for it in u.items for h in it.hints_lost]
    # control structure of every contracted function vs. the fingerprint recorded for the tree the proofs were written on
    from vx.extract import fn_fingerprints
    import json
    try:
        known = json.load(open(os.path.join(u.verif, "contracts", "fingerprints.json"))).get(u.name, {})
    except OSError:
        known = {}
    reshaped = []
    for it in u.items:
        for fn, fp in fn_fingerprints(it.raw_text).items():
            key = f"{it.relpath}::{it.anchor.split(' :: ')[0][:60]}::{fn}"
            if fn in contracted and known.get(key) not in (None, fp):
                reshaped.append(fn)
    return {"intact": not uncontracted and not missing and not lost and not reshaped, "uncontracted_helpers": uncontracted,
            "unextracted_helpers_called": missing, "hint_anchors_lost": lost, "control_structure_changed": sorted(set(reshaped))}


def run_unit(unit_mod, prop, repo, verif, workdir, tier, log):
    """verify the `prop` view of one unit; returns StageResult"""
    # "unit@Cxx": the unit is rendered in the view of property Cxx (its clauses carry that tag) while deciding `prop`
    view_prop = prop
    if "@" in unit_mod:
        unit_mod, view_prop = unit_mod.split("@", 1)
    mod = importlib.import_module("contracts." + unit_mod)
    st = StageResult(f"verus:{unit_mod}[{prop}]", "verus+z3")
    t0 = time.time()
    try:
        u = Unit(unit_mod, repo, verif)
        mod.build(u)
    except Lost as e:
        st.undecided.append(f"extraction: {e}")
        st.wall_s = time.time() - t0
        return st
    rlimit = getattr(mod, "RLIMIT", 60)
    st.details["skeleton"] = skeleton(u, repo)
    lost = [h for it in u.items for h in it.hints_lost if (h.get("tags") is None or view_prop in h["tags"])]
    degraded = bool(lost)
    disabled = set()
    dropped_hints = []
    res = None
    attempts = 0
    text = org = None
    while True:
        attempts += 1
        text, org = u.render(disabled=frozenset(disabled), view=view_prop)
        path = os.path.join(workdir, f"{unit_mod}_{prop}_{attempts}.rs")
        open(path, "w").write(text)
        res = run_verus(path, rlimit=rlimit)
        if res.resource and not res.tool_errors and attempts == 1 and not res.diags:
            # one retry at 4x rlimit before giving up
            res2 = run_verus(path, rlimit=rlimit * 4)
            if not res2.resource:
                res = res2
                st.details["rlimit_retry"] = rlimit * 4
        owner = fn_map(text)
        fails = [name_failure(unit_mod, d, org, owner) for d in res.diags]
        hint_fails = [f for f in fails if f.cls == "hint"]
        # a contract-level failure reported next to a failed hint is checked under the *assumption* of the
        # hint, so it is genuine; only when hints alone fail is the unit re-run without them
        if hint_fails and attempts <= 6 and not res.tool_errors and not any(f.cls == "contract" for f in fails):
            for f in hint_fails:
                disabled.add(f.clause)
                dropped_hints.append(f.name)
            log(f"  {unit_mod}[{prop}]: proof hint(s) failed ({', '.join(f.name for f in hint_fails)}); re-running without them")
            continue
        break
    st.solver_ms += res.smt_ms
    st.details.update({
        "checker_cmd": res.cmd, "verus_items_verified": res.verified, "verus_items_failed": res.errors,
        "rlimit": rlimit, "attempts": attempts, "hints_dropped": dropped_hints, "hints_anchor_lost": lost,
        "times": res.times, "slowest": sorted(res.func_times, key=lambda x: -(x["ms"] or 0))[:5],
        "functions_under_contract": [{"fn": n, "file": f} for n, f in u.contracted],
        "theorems": u.theorems,
        "items": [{"file": it.relpath, "anchor": it.anchor, "line": it.first_line, "sha256": it.sha} for it in u.items],
        "rules_applied": [r for it in u.items for r in it.rules_applied],
        "clauses": [c for it in u.items for c in it.clauses if c["kind"] != "canary" and (c["tags"] is None or view_prop in c["tags"])],
        "assumption_scan": scan_assumptions(text, org),
    })
    st.obligations = res.verified + res.errors
    st.discharged = res.verified
    if res.tool_errors:
        for d in res.tool_errors[:5]:
            st.undecided.append("verus/rustc rejected the generated unit: " + d.message[:300])
    if res.resource:
        st.undecided.append("resource limit: " + "; ".join((d.message if hasattr(d, "message") else str(d))[:120] for d in res.resource[:3]))
    contract = [f for f in fails if f.cls == "contract"]
    specf = [f for f in fails if f.cls == "spec"]
    for f in specf:
        st.undecided.append(f"spec-level lemma failed (not a statement about the code): {f.name}")
    if degraded and contract:
        st.details["degraded"] = True
    st.failures = contract
    if st.obligations == 0 and not st.undecided:
        st.undecided.append("verus generated zero obligations")
    st.samples = [c["id"] for it in u.items for c in it.clauses if c["kind"] == "contract"][:6] + u.theorems[:4]

    # ---- canaries (vacuity guard) --------------------------------------------------------------
    if not st.failures and not st.undecided:
        ctext, corg = u.render(disabled=frozenset(disabled), canaries=True, view=view_prop)
        expected = []
        for o in corg:
            if o and o[0] == "clause" and o[2] == "canary" and o[1] not in expected:
                expected.append(o[1])
        cpath = os.path.join(workdir, f"{unit_mod}_{prop}_canary.rs")
        open(cpath, "w").write(ctext)
        cres = run_verus(cpath, rlimit=rlimit, multiple_errors=4)
        st.solver_ms += cres.smt_ms
        owner = fn_map(ctext)
        seen = set()
        for d in cres.diags:
            f = name_failure(unit_mod, d, corg, owner)
            if f.cls == "canary":
                seen.add(f.clause)
        missing = [c for c in expected if c not in seen]
        still = []
        for c in missing:
            # a canary hidden behind another failure in the same query: run it alone
            others = frozenset(x for x in expected if x != c) | frozenset(disabled)
            t1, o1 = u.render(disabled=others, canaries=True, view=view_prop)
            p1 = os.path.join(workdir, f"{unit_mod}_{prop}_canary_{len(still)}.rs")
            open(p1, "w").write(t1)
            r1 = run_verus(p1, rlimit=rlimit, multiple_errors=2)
            ow = fn_map(t1)
            if not any(name_failure(unit_mod, d, o1, ow).clause == c for d in r1.diags):
                still.append(c)
        st.details["canaries"] = {"expected": len(expected), "rejected": len(expected) - len(still), "not_rejected": still}
        if still:
            st.undecided.append("vacuity: canary assert(false) verified under " + ", ".join(still))
    st.wall_s = time.time() - t0
    return st
