#!/usr/bin/env python3
"""gen.py <unit> [--canaries] [--repo DIR] [-o FILE]: render one unit (debug helper)"""
import argparse, importlib, sys, os
sys.path.insert(0, os.path.dirname(os.path.dirname(os.path.abspath(__file__))))
from vx.extract import Unit
ap = argparse.ArgumentParser(); ap.add_argument("unit"); ap.add_argument("--canaries", action="store_true")
ap.add_argument("--repo", default="/repo"); ap.add_argument("-o", default="-"); ap.add_argument("--view", default=None)
a = ap.parse_args()
verif = os.path.dirname(os.path.dirname(os.path.abspath(__file__)))
mod = importlib.import_module("contracts." + a.unit)
u = Unit(a.unit, a.repo, verif); mod.build(u)
text, org = u.render(canaries=a.canaries, view=a.view or (mod.PROPS[0] if getattr(mod, "PROPS", None) else None))
(sys.stdout if a.o == "-" else open(a.o, "w")).write(text)
for it in u.items:
    for h in it.hints_lost: print("HINT LOST", h, file=sys.stderr)
