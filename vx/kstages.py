"""Kani stages per property (harness lists, bounds)"""
import os

from vx import stage_kani as K


def k1_replace_inv(prop, repo, verif, workdir, tier, seed, log):
    mods = {"src/replace_source.rs": [os.path.join(verif, "kani", "replace_inv.rs")]}
    hs = [("new_establishes_inv", "ReplaceSource::new.establishes_inv"),
          ("mutator_preserves_inv_n0", "replace|replace_with_enforce|insert|insert_with_enforce.preserve_inv+append(n=0)"),
          ("mutator_preserves_inv_n1", "replace|replace_with_enforce|insert|insert_with_enforce.preserve_inv+append(n=1)"),
          ("mutator_preserves_inv_n2", "replace|replace_with_enforce|insert|insert_with_enforce.preserve_inv+append(n=2)"),
          ("sorted_replacement_contract_n0", "sorted_replacement.stable_key_order(n=0)"),
          ("sorted_replacement_contract_n1", "sorted_replacement.stable_key_order(n=1)"),
          ("sorted_replacement_contract_n2", "sorted_replacement.stable_key_order(n=2)"),
          ("clone_preserves_inv_n2", "clone.preserves_inv+replacements(n=2)")]
    bound = "bounded: symbolic state holds n <= 2 replacements (keys over all of u32 x u32 x enforce; contents empty - the comparator never reads them)"
    if tier == "thorough":
        hs.append(("sorted_replacement_contract_n3", "sorted_replacement.stable_key_order(n=3)"))
        bound = bound.replace("n <= 2", "n <= 3 for sorted_replacement, n <= 2 otherwise")
    return [K.run_set("replace_inv", prop, repo, verif, workdir, mods, hs, log, bounded=bound, jobs=8, timeout=1500 if tier == "thorough" else 600)]
