"""Kani stages per property (harness lists, bounds)"""
import os

from vx import stage_kani as K


def k1_replace_inv(prop, repo, verif, workdir, tier, seed, log):
    mods = {"src/replace_source.rs": [os.path.join(verif, "kani", "replace_inv.rs")]}
    hs = [("new_establishes_inv", "ReplaceSource::new.establishes_inv"),
          ("mutator_preserves_inv_n0", "replace|replace_with_enforce|insert|insert_with_enforce.preserve_inv+append(n=0)"),
          ("mutator_preserves_inv_n1", "replace|replace_with_enforce|insert|insert_with_enforce.preserve_inv+append(n=1)"),
          ("mutator_preserves_inv_n2", "replace|replace_with_enforce|insert|insert_with_enforce.preserve_inv+append(n=2)"),
          ("sorted_replacement_contract_n0", "sorted_replacement.stable_key_order(n=0)"),
          ("sorted_replacement_contract_n1", "sorted_replacement.stable_key_order(n=1)"),
          ("sorted_replacement_contract_n2", "sorted_replacement.stable_key_order(n=2)"),
          ("clone_preserves_inv_n2", "clone.preserves_inv+replacements(n=2)")]
    bound = "bounded: symbolic state holds n <= 2 replacements (keys over all of u32 x u32 x enforce; contents empty - the comparator never reads them)"
    if tier == "thorough":
        hs.append(("sorted_replacement_contract_n3", "sorted_replacement.stable_key_order(n=3)"))
        bound = bound.replace("n <= 2", "n <= 3 for sorted_replacement, n <= 2 otherwise")
    st = K.run_set("replace_inv", prop, repo, verif, workdir, mods, hs, log, bounded=bound, jobs=8, timeout=1500 if tier == "thorough" else 600, extra=("-Z", "stubbing"))
    dependency_contracts(repo, st)
    return [st]


STUBBED_UNSTABLE = {"sorted_unstable_by", "sorted_unstable_by_key", "sorted_unstable"}


def dependency_contracts(repo, st):
    """the order contract of sorted_replacement rests on the callee contract of the sort it calls: the stable family is
    stable for every length (documented contract; real body run within the bound), itertools' unstable family enters
    the harnesses through contract stubs; any other *unstable* sort has no contract stub here -> undecided."""
    import re
    src = open(os.path.join(repo, "src", "replace_source.rs")).read()
    found = []
    for fn in ("sort_replacement", "sorted_replacement"):
        m = re.search(r"fn\s+" + fn + r"\b[^{]*\{", src)
        if not m:
            continue
        depth, j = 1, m.end()
        while j < len(src) and depth:
            depth += src[j] == "{"
            depth -= src[j] == "}"
            j += 1
        body = src[m.end():j]
        for c in re.findall(r"\.\s*(\w*(?:sort|select_nth)\w*)\s*(?:::<[^>]*>)?\(", body):
            found.append((fn, c))
    st.details["sort_dependencies"] = [{"in": a, "calls": b, "contract": ("stable for all n (documented); real body, bounded n" if "unstable" not in b else
                                        ("sorted permutation, tie order unspecified (contract stub)" if b in STUBBED_UNSTABLE else "no contract stub"))} for a, b in found]
    for a, b in found:
        if "unstable" in b and b not in STUBBED_UNSTABLE:
            st.undecided.append(f"replace_inv/{a}: calls `{b}`, whose contract gives no tie order and for which Kani accepts no contract stub here; "
                                "the bounded run of its real body cannot stand for all lengths")


def k2_eq_hash(prop, repo, verif, workdir, tier, seed, log):
    kd = os.path.join(verif, "kani")
    mods = {"src/raw_source.rs": [kd + "/eq_hash_raw.rs"], "src/original_source.rs": [kd + "/eq_hash_original.rs"], "src/replace_source.rs": [kd + "/eq_hash_replace.rs"],
            "src/source_map_source.rs": [kd + "/eq_hash_sms.rs"]}
    hs = [("raw_string_eq_hash_clone", "RawStringSource.eq_hash_clone=function_of_value"),
          ("raw_buffer_eq_hash_clone", "RawBufferSource.eq_hash_clone=function_of_value"),
          ("raw_source_eq_hash_clone_buf_buf_same", "RawSource.eq_hash_clone=function_of_value(Buffer,Buffer equal)"),
          ("raw_source_eq_hash_clone_buf_buf_diff", "RawSource.eq_hash_clone=function_of_value(Buffer,Buffer unequal)"),
          ("raw_source_eq_hash_clone_str_static", "RawSource.eq_hash_clone=function_of_value(String owned,static)"),
          ("raw_source_eq_hash_clone_buf_str", "RawSource.eq_hash_clone=function_of_value(Buffer,String)"),
          ("original_eq_hash_clone", "OriginalSource.eq_hash_clone=function_of_value_and_name"),
          ("source_map_source_eq_hash_clone", "SourceMapSource.eq_hash_clone=function_of_fields"),
          ("replace_eq_ignores_cache", "ReplaceSource.eq_clone=function_of_replacements(any cache state)"),
          ("replace_hash_cold_cache_n1", "ReplaceSource.hash=function_of_replacements(cold cache, n=1)"),
          ("clone_preserves_inv_n2", "ReplaceSource.clone.preserves_lazy_sort_invariant(n=2)")]
    mods["src/replace_source.rs"].append(kd + "/replace_inv.rs")
    bound = ("bounded: exhaustive in cache histories (symbolic observer calls per operand, arbitrary lazy-sort cache state), "
             "sampled in data (fixed catalogue: ASCII, multi-byte, invalid UTF-8, equal/unequal pairs)")
    return [K.run_set("eq_hash", prop, repo, verif, workdir, mods, hs, log, bounded=bound, jobs=10, timeout=600, extra=("-Z", "stubbing"))]


def k4_with_indices(prop, repo, verif, workdir, tier, seed, log):
    mods = {"src/with_indices.rs": [os.path.join(verif, "kani", "with_indices.rs")]}
    hs = [("substring_mixed_width", "WithIndices<&str>::substring.get_unchecked.pre(1-3 byte chars)"),
          ("substring_last_char_multibyte", "WithIndices<&str>::substring.get_unchecked.pre(last char multi-byte)"),
          ("substring_astral", "WithIndices<&str>::substring.get_unchecked.pre(4-byte char)"),
          ("substring_ascii", "WithIndices<&str>::substring.get_unchecked.pre(ascii)"),
          ("substring_empty", "WithIndices<&str>::substring.get_unchecked.pre(empty)")]
    bound = "bounded: text from a 5-entry catalogue; start_index/end_index symbolic over all of usize x usize (complete in the indices)"
    st = K.run_set("with_indices", prop, repo, verif, workdir, mods, hs, log, bounded=bound, jobs=6, timeout=600)
    mods2 = {"src/rope.rs": [os.path.join(verif, "kani", "rope_degenerate.rs")]}
    hs2 = [("rope_from_empty_iter_slice", "Rope::get_byte_slice/get_byte.get_unchecked.pre(from_iter of no pieces)"),
           ("rope_from_empty_pieces_slice", "Rope::get_byte_slice/get_byte.get_unchecked.pre(from_iter of empty pieces)")]
    st2 = K.run_set("rope_degenerate", prop, repo, verif, workdir, mods2, hs2, log, jobs=2, timeout=600,
                    bounded="bounded: the two degenerate rope shapes (multi-piece representation holding no piece); range symbolic over all of usize x usize")
    return [st, st2]


def k5_codec_cross(prop, repo, verif, workdir, tier, seed, log):
    """thorough tier only: the Verus codec contracts re-checked on the compiled real code"""
    if tier != "thorough":
        return []
    kd = os.path.join(verif, "kani")
    mods = {"src/encoder.rs": [kd + "/codec_enc_cross.rs"], "src/decoder.rs": [kd + "/codec_dec_cross.rs"]}
    hs = [("encode_vlq_full_domain", "encode_vlq.ensures(full u32 x u32 domain; complete)"),
          ("decoder_first_vs_reader_len4", "MappingsDecoder::next==dec_next(un-rewritten for-loop; all ASCII strings of 4 bytes)"),
          ("decoder_first_vs_reader_len6", "MappingsDecoder::next==dec_next(un-rewritten for-loop; all ASCII strings of 6 bytes)")]
    bound = "encode_vlq: complete (loop bounded by operand width, unwinding assertions on); decoder: bounded, first next() on all ASCII strings of 4 and 6 bytes"
    return [K.run_set("codec_cross", prop, repo, verif, workdir, mods, hs, log, bounded=bound, jobs=3, timeout=2400, mem_mb=16000)]
