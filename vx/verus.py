"""Run Verus on a generated unit and turn its diagnostics back into named obligations."""
import json
import os
import re
import subprocess
import time

SEMANTIC = [
    # (regex on message, kind)
    (r"^postcondition not satisfied", "postcondition"),
    (r"^precondition not satisfied", "precondition"),
    (r"^invariant not satisfied at end of loop body", "invariant-preserved"),
    (r"^invariant not satisfied before loop", "invariant-established"),
    (r"^loop invariant", "invariant"),
    (r"^assertion failed", "assertion"),
    (r"^possible arithmetic underflow/overflow", "arith-overflow"),
    (r"^possible bit shift underflow/overflow", "shift-overflow"),
    (r"^possible division by zero", "div-zero"),
    (r"^decreases not satisfied", "termination"),
    (r"^could not prove termination", "termination"),
    (r"^possible.*out of (bounds|range)", "index"),
    (r"^unreachable|^reached unreachable|^panic|^constructed value may fail", "reach"),
    (r"^possible (truncation|cast)", "cast"),
]
RESOURCE = re.compile(r"Resource limit|rlimit|timed? ?out|canceled|cancelled", re.I)


class Diag:
    def __init__(self, message, spans, rendered):
        self.message, self.spans, self.rendered = message, spans, rendered
        self.kind = None
        for rx, k in SEMANTIC:
            if re.search(rx, message):
                self.kind = k
                break
        self.resource = bool(RESOURCE.search(message))

    def primary(self):
        for sp in self.spans:
            if sp.get("is_primary"):
                return sp
        return self.spans[0] if self.spans else None

    def labelled(self, label_rx):
        for sp in self.spans:
            if sp.get("label") and re.search(label_rx, sp["label"]):
                return sp
        return None


class Result:
    def __init__(self):
        self.rc = None
        self.verified = 0
        self.errors = 0
        self.diags = []
        self.tool_errors = []  # rustc / unsupported / vir errors: undecided
        self.resource = []  # rlimit / timeout
        self.wall_s = 0.0
        self.smt_ms = 0
        self.times = {}
        self.cmd = ""
        self.stderr = ""
        self.func_times = []


def run_verus(path, rlimit=60, multiple_errors=8, timeout=600, extra=()):
    cmd = ["verus", os.path.basename(path), "--rlimit", str(rlimit), "--multiple-errors", str(multiple_errors),
           "--output-json", "--time-expanded", "--error-format=json", "--triggers-mode", "silent"] + list(extra)
    r = Result()
    r.cmd = " ".join(cmd)
    t0 = time.time()
    try:
        p = subprocess.run(cmd, cwd=os.path.dirname(path), capture_output=True, text=True, timeout=timeout)
        r.rc = p.returncode
        out, err = p.stdout, p.stderr
    except subprocess.TimeoutExpired as e:
        r.rc = -9
        out, err = (e.stdout or b"").decode() if isinstance(e.stdout, bytes) else (e.stdout or ""), ""
        r.resource.append("verus wall-clock timeout %ds" % timeout)
    r.wall_s = time.time() - t0
    r.stderr = err
    try:
        j = json.loads(out[out.index("{"):]) if "{" in out else {}
    except Exception:
        j = {}
    vr = j.get("verification-results", {})
    r.verified = vr.get("verified", 0)
    r.errors = vr.get("errors", 0)
    r.vir_error = vr.get("encountered-vir-error", False)
    t = j.get("times-ms", {})
    r.smt_ms = (t.get("smt") or {}).get("smt-run", 0)
    r.times = {"total_ms": t.get("total"), "smt_run_ms": r.smt_ms, "verus_version": (t.get("verus-build") or {}).get("version")}
    for mod in (t.get("smt") or {}).get("smt-run-module-times", []) or []:
        for f in mod.get("function-breakdown", []) or []:
            r.func_times.append({"function": f.get("function"), "ms": f.get("time"), "rlimit": f.get("rlimit")})
    for line in err.splitlines():
        line = line.strip()
        if not line.startswith("{"):
            continue
        try:
            d = json.loads(line)
        except Exception:
            continue
        if d.get("level") != "error":
            continue
        msg = d.get("message", "")
        if msg.startswith("aborting due to"):
            continue
        dg = Diag(msg, d.get("spans", []), d.get("rendered", ""))
        if dg.resource:
            r.resource.append(dg)
        elif dg.kind is None or d.get("code"):
            r.tool_errors.append(dg)
        else:
            r.diags.append(dg)
    if r.rc not in (0, 1) and not r.resource and not r.tool_errors and not r.diags:
        r.tool_errors.append(Diag("verus exited with rc=%s: %s" % (r.rc, err[-400:]), [], err[-2000:]))
    if not j and not r.tool_errors and not r.resource:
        r.tool_errors.append(Diag("verus produced no JSON summary: " + err[-400:], [], err[-2000:]))
    return r
