"""Kani stage: harness child-modules appended to a scratch copy of the crate, run with cargo kani (offline, vendored deps)."""
import concurrent.futures as cf
import os
import re
import shutil
import signal
import subprocess
import threading
import time

from vx.stage_verus import Failure, StageResult


def ensure_vendor(repo, verif, log):
    vend = os.path.join(verif, ".cache", "vendor")
    stamp = os.path.join(vend, ".lockhash")
    import hashlib
    h = hashlib.sha256(open(os.path.join(repo, "Cargo.lock"), "rb").read()).hexdigest()
    if os.path.exists(stamp) and open(stamp).read() == h:
        return vend
    os.makedirs(vend, exist_ok=True)
    p = subprocess.run(["python3", os.path.join(verif, "kani", "vendor.py"), os.path.join(repo, "Cargo.lock"), vend], capture_output=True, text=True)
    if p.returncode != 0 or "missing []" not in p.stdout:
        raise RuntimeError("vendoring failed: " + (p.stdout + p.stderr)[-600:])
    open(stamp, "w").write(h)
    return vend


def prepare(repo, verif, workdir, mods, log):
    """mods: {src_rel_path: [harness_file_abs, ...]} -> scratch crate dir"""
    vend = ensure_vendor(repo, verif, log)
    d = os.path.join(workdir, "kani-crate")
    if os.path.exists(d):
        shutil.rmtree(d)
    os.makedirs(d)
    shutil.copytree(os.path.join(repo, "src"), os.path.join(d, "src"))
    toml = open(os.path.join(repo, "Cargo.toml")).read()
    toml = re.sub(r"\[\[bench\]\][^\[]*", "", toml)
    open(os.path.join(d, "Cargo.toml"), "w").write(toml)
    shutil.copy(os.path.join(repo, "Cargo.lock"), d)
    os.makedirs(os.path.join(d, ".cargo"))
    open(os.path.join(d, ".cargo", "config.toml"), "w").write(
        f'[source.crates-io]\nreplace-with = "vendored-sources"\n[source.vendored-sources]\ndirectory = "{vend}"\n[net]\noffline = true\n')
    for rel, files in mods.items():
        p = os.path.join(d, rel)
        with open(p, "a") as f:
            for i, hf in enumerate(files):
                name = "verif_kani_" + re.sub(r"\W", "_", os.path.basename(hf)[:-3])
                f.write(f'\n#[cfg(kani)]\n#[path = "{hf}"]\nmod {name};\n')
    return d


def _rss_mb(pid):
    """resident set of the whole process tree under pid (MB)"""
    try:
        out = subprocess.run(["ps", "-e", "-o", "pid=,ppid=,rss="], capture_output=True, text=True).stdout
    except Exception:
        return 0
    kids = {}
    rss = {}
    for line in out.splitlines():
        a = line.split()
        if len(a) == 3:
            kids.setdefault(int(a[1]), []).append(int(a[0]))
            rss[int(a[0])] = int(a[2])
    tot = 0
    stack = [pid]
    while stack:
        x = stack.pop()
        tot += rss.get(x, 0)
        stack += kids.get(x, [])
    return tot // 1024


def run_harness(crate, harness, target_dir, timeout=900, mem_mb=12000, extra=()):
    cmd = ["cargo", "kani", "--harness", harness, "--output-format", "regular"] + list(extra)
    env = dict(os.environ, CARGO_NET_OFFLINE="true", CARGO_TARGET_DIR=target_dir)
    env.pop("RUSTFLAGS", None)
    t0 = time.time()
    p = subprocess.Popen(cmd, cwd=crate, env=env, stdout=subprocess.PIPE, stderr=subprocess.STDOUT, text=True, start_new_session=True)
    state = {"why": None}

    def watch():
        while p.poll() is None:
            time.sleep(2)
            if time.time() - t0 > timeout:
                state["why"] = f"timeout {timeout}s"
            elif _rss_mb(p.pid) > mem_mb:
                state["why"] = f"memory > {mem_mb} MB"
            if state["why"]:
                try:
                    os.killpg(p.pid, signal.SIGKILL)
                except Exception:
                    pass
                return

    th = threading.Thread(target=watch, daemon=True)
    th.start()
    out = p.communicate()[0]
    wall = time.time() - t0
    res = {"harness": harness, "wall_s": round(wall, 1), "cmd": " ".join(cmd), "killed": state["why"], "rc": p.returncode}
    m = re.search(r"SUMMARY:\s*\n\s*\*\* (\d+) of (\d+) failed", out)
    res["checks_failed"] = int(m.group(1)) if m else None
    res["checks_total"] = int(m.group(2)) if m else None
    res["successful"] = "VERIFICATION:- SUCCESSFUL" in out
    res["failed"] = "VERIFICATION:- FAILED" in out
    fails = []
    for fm in re.finditer(r"Failed Checks: (.*)\n\s*File: \"([^\"]*)\", line (\d+), in (\S+)", out):
        fails.append({"desc": fm.group(1).strip(), "file": fm.group(2), "line": int(fm.group(3)), "fn": fm.group(4)})
    res["failed_checks"] = fails
    covers = re.findall(r"Status: (SATISFIED|UNSATISFIABLE|UNREACHABLE)\s*\n\s*Description: \"([^\"]*)\"", out)
    cov2 = re.findall(r"Check \d+: \S*cover\S*\s*\n\s*- Status: (\w+)\s*\n\s*- Description: \"([^\"]*)\"", out)
    res["covers"] = [{"status": a, "desc": b} for a, b in (covers or cov2)]
    tm = re.search(r"Verification Time: ([\d\.]+)s", out)
    res["solver_s"] = float(tm.group(1)) if tm else None
    res["tail"] = out[-3000:]
    res["compile_error"] = ("error: could not compile" in out) or ("error[E" in out) or ("internal compiler error" in out)
    return res


def run_set(name, prop, repo, verif, workdir, mods, harnesses, log, bounded=None, jobs=6, timeout=900, mem_mb=12000, extra=(), tag=None):
    """run a list of (harness_name, obligation_name) ; returns StageResult"""
    st = StageResult(f"kani:{name}[{prop}]", "kani+cbmc")
    st.bounded = bounded
    t0 = time.time()
    try:
        crate = prepare(repo, verif, workdir, mods, log)
    except Exception as e:
        st.undecided.append(f"kani scratch crate: {e}")
        return st
    target = os.path.join(verif, ".cache", "kani-target-" + prop)
    os.makedirs(target, exist_ok=True)
    import fcntl
    lockf = open(os.path.join(target, ".verif-lock"), "w")
    fcntl.flock(lockf, fcntl.LOCK_EX)  # two runs of the same property's Kani stage must not share a target dir concurrently
    # first harness alone (builds the crate), the rest in parallel
    results = []
    first = run_harness(crate, harnesses[0][0], target, timeout, mem_mb, extra)
    results.append(first)
    if first["compile_error"] and not first["successful"] and not first["failed"]:
        st.undecided.append("kani could not compile the scratch crate: " + first["tail"][-600:])
        st.wall_s = time.time() - t0
        return st
    with cf.ThreadPoolExecutor(max_workers=jobs) as ex:
        futs = [ex.submit(run_harness, crate, h, target, timeout, mem_mb, extra) for h, _ in harnesses[1:]]
        results += [f.result() for f in futs]
    obl = dict(harnesses)
    for r in results:
        st.obligations += 1
        oname = f"{name}/{obl[r['harness']]}"
        if r["successful"] and not r["failed"]:
            st.discharged += 1
            bad_cov = [c for c in r["covers"] if c["status"] != "SATISFIED"]
            if bad_cov:
                st.undecided.append(f"{oname}: reachability cover not satisfied (vacuous harness?): {bad_cov[0]['desc']}")
        elif r["failed"]:
            desc = "; ".join(f"{c['desc']} ({os.path.basename(c['file'])}:{c['line']})" for c in r["failed_checks"][:4]) or "check FAILED"
            unwind = [c for c in r["failed_checks"] if "unwinding assertion" in c["desc"]]
            if unwind and len(unwind) == len(r["failed_checks"]):
                st.undecided.append(f"{oname}: unwinding bound too small ({desc})")
            else:
                st.failures.append(Failure("contract", oname, "Kani check FAILED: " + desc, f"harness {r['harness']}", r["tail"][-1800:]))
        else:
            st.undecided.append(f"{oname}: no verdict ({r['killed'] or 'kani rc=%s' % r['rc']})")
        st.solver_ms += int((r["solver_s"] or 0) * 1000)
    st.details = {"checker_cmd": results[0]["cmd"].replace(harnesses[0][0], "<harness>") + " " + " ".join(extra),
                  "harnesses": [{k: r[k] for k in ("harness", "wall_s", "checks_total", "checks_failed", "successful", "killed", "solver_s", "covers")} for r in results],
                  "harness_files": sorted(set(os.path.relpath(h, verif) for fs in mods.values() for h in fs)),
                  "cbmc_checks_total": sum(r["checks_total"] or 0 for r in results)}
    st.samples = [f"{name}/{o}" for _, o in harnesses[:6]]
    st.wall_s = time.time() - t0
    shutil.rmtree(crate, ignore_errors=True)
    return st
