"""which stages decide which property"""
PLAN = {
    "C12": {"level": "proof", "verus_units": ["codec_enc", "codec_dec", "codec_thm"]},
    "C17": {"level": "proof", "verus_units": ["codec_dec", "codec_enc"]},
    "C11": {"level": "proof", "verus_units": ["codec_enc"]},
    "C19": {"level": "proof", "verus_units": ["codec_enc"]},
}
