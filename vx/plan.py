"""which stages decide which property, and what each claim says"""

FIX_COMMITS = ["88f9d1c", "d6a9f9a", "829a1d9", "4f7f1cb", "76e0d75", "61968ad", "ba25d88", "86fe658", "3b956e0", "e0cf456", "6a1a7ff", "750288e"]

TB_VERUS = [
    "Verus 0.2026.09.13 + Z3 (verifier, encoding of Rust semantics, vstd specs of Vec/String/str/slice iterators/Option/arrays)",
    "rustc front end of the Verus toolchain",
    "extraction rules D1 D2 D4 R1 R2 R3a R3b C1 S1 (DESIGN 3.1): fixed textual rewrites, every applied instance listed in coverage.stages[].details.rules_applied",
]
TB_CODEC_ENC = [
    "assume_specification: Option::is_some_and (calls the closure on the payload), std::mem::take (returns the old value), "
    "String::from_utf8_unchecked (requires ASCII, returns those chars)",
    "Box<dyn MappingsEncoder> dispatch in create_encoder and the for_each driver loops of encode_mappings/get_map are outside the proof (rule D1 drops the trait)",
]

TB_ROPE = [
    "unit rope_core: assume_specification for Rc::make_mut (value seen through the Rc unchanged; returned reference is the Rc's content), Vec::reserve_exact, str::get (Some exactly when vstd's in_bounds holds), "
    "<[T]>::get_unchecked and str::get_unchecked (requires = their documented safety precondition), Result::unwrap_or_else, <[T]>::binary_search_by "
    "(std's documented contract PLUS `last_match`: among several Equal elements the pinned std returns the last one - Rope::get_byte needs it for a rope that starts with an empty piece; the twin re-checks this on the pinned toolchain)",
    "axioms: a str is at most usize::MAX bytes long (vstd's str::len is spec_bytes().len() as usize); a Vec holds at most usize::MAX elements",
    "rules V1 M1 M3 P1 P2 D3 D8 C3 C4 C5 C6 G2 R2t (contracts/rope_core.py): G2 instantiates `R: RangeBounds<usize>` at (Bound<usize>, Bound<usize>), the most general instance; R2t turns `(a..b).try_for_each(|i| {..})?` into the equivalent `for` loop",
    "Rope total length fits usize (requires of add/append): pieces are borrowed, so the same memory can be appended repeatedly; exceeding usize::MAX needs > 2^64 bytes of pieces",
]

TB_ROPE_OBS = [
    "unit rope_obs: assume_specification for str::starts_with::<P> / str::ends_with::<P> (generic over Pattern: the answer is an uninterpreted function of (string, pattern)) with three axioms fixing it for the instances used - "
    "`&str` / `&&str` prefix patterns: byte-prefix test (std's implementation is `haystack.as_bytes().starts_with(needle.as_bytes())`), `char` suffix pattern: the string is non-empty and its last char is the pattern; "
    "<str as Index<I>>::index (exposes vstd's own index_postcondition); axiom: `==` on [u8] slices is equality of the byte sequences (std's PartialEq for slices)",
    "rule A1 (contracts/rope_obs.py): `X.iter().all(|(s, _)| E)` -> a `for` loop accumulating the conjunction (E has no side effects); rule P3: `let &(x, _) = &E[i];` -> `let x = E[i].0;`",
    "unit rope_build: rule G3 instantiates `T: IntoIterator<Item = &str>` at Vec<&str> (only the finite item sequence matters: the body consumes the iterator to the end), rule FM1 turns `.into_iter().filter_map(|c| { if C { return None; } BODY Some(E) }).collect::<Vec<_>>()` into the loop it abbreviates; total length fits usize (requires)",
    "axiom: `==` on str is equality of the bytes (std's PartialEq for str; used by the single-piece arm of Rope == Rope)",
]

from vx.kstages import k1_replace_inv, k2_eq_hash, k4_with_indices, k5_codec_cross  # noqa: E402
from vx.witness import c19_witness, codec_witness, eqhash_witness, mixed_witness, replace_witness, rope_witness, views_witness  # noqa: E402

PLAN = {
    "C12": {
        "level": "proof",
        "witness": codec_witness,
        "verus_units": ["codec_enc", "codec_dec", "codec_thm"],
        "extra_stages": [k5_codec_cross],
        "kani": True,
        "technique": "contract-based deductive verification (Verus) of the real encode_vlq / encoders / MappingsDecoder::next, extracted mechanically each run, plus spec-level round-trip theorems over those contracts",
        "claim": "Unbounded proof: the real FullMappingsEncoder::encode / LinesOnlyMappingsEncoder::encode / encode_vlq equal the v3 writer spec "
                 "(enc_bytes/enc_state), the real MappingsDecoder::next equals the byte-level v3 reader dec_next on every byte string, and over those "
                 "contracts decode(encode(ms)) == kept(ms), attribution is preserved, re-encoding is idempotent and the lines-only writer keeps the "
                 "first mapped segment per line. All sequence lengths; fields < 2^30 as the property states.",
        "note": "Trusted: Verus/Z3/vstd; extraction rules; 3 assume_specifications; dyn dispatch and the two-line wrappers encode_mappings/decode_mappings "
                "are outside the proof; decoder strings < 4 GiB.",
        "trusted_base": TB_VERUS + TB_CODEC_ENC,
        "assumptions": ["mapping fields and deltas < 2^30 (requires m_in_dom / es_in_dom)", "encoder input sorted by generated line (requires line <= m.generated_line)",
                        "mappings string shorter than u32::MAX - 1 bytes (requires of MappingsDecoder::new)"],
        "not_covered": ["helpers::encode_mappings / decode_mappings wrappers (iterator for_each + Box<dyn> dispatch)", "get_map's use of the encoder"],
        "design_ref": "DESIGN.md §4/C12",
    },
    "C17": {
        "level": "proof",
        "witness": mixed_witness,
        "verus_units": ["codec_dec", "codec_enc", "replace_splice", "replace_helpers", "helpers_tokens", "rope_bounds", "rope_core", "rope_obs", "rope_build"],
        "extra_stages": [k5_codec_cross],
        "kani": True,
        "technique": "contract-based deductive verification (Verus): overflow/shift/index/termination obligations of the real decoder and encoders under a representation invariant",
        "claim": "Partial, unbounded proof: MappingsDecoder::next never overflows, shifts out of range, indexes out of bounds or diverges on any byte string "
                 "< 4 GiB for any number of calls (struct invariant preserved); encode_vlq is panic-free for every pair of u32 and both encoders for every sequence of "
                 "mappings with non-decreasing generated lines and ARBITRARY u32 field values (no value-domain precondition in this view; found and fixed one overflow this way); "
                 "ReplaceSource::source and ::rope slice only in range on char boundaries; check_content_at_position is total (found and fixed a line-0 underflow); "
                 "Rope's two range-bound helpers are total (found and fixed an overflow at usize::MAX); "
                 "PotentialTokens::next (OriginalSource's tokenizer) slices only in range on char boundaries, always makes progress and returns exactly the next consecutive slice, for every UTF-8 text. "
                 "Rope::{new, add, append, len, get_byte, get_byte_slice, byte_slice (on valid ranges), get_byte_slice_impl} never overflow, underflow or index out of range on any rope satisfying the representation invariant, for every range bound (unit rope_core). "
                 "Rope::{is_empty, ends_with, starts_with} and Rope == Rope / str / &str (units rope_obs, rope_core) never slice a str off a char boundary or out of range and terminate, for every pair of ropes however divided into pieces (found and fixed a char-boundary panic in starts_with this way). "
                 "JSON parsers, chunk streaming and the remaining Rope methods are not decided.",
        "note": "Partial: only the decoder/encoder half of the property. Trusted: Verus/Z3/vstd, extraction rules, assume_specifications listed in evidence.",
        "trusted_base": TB_VERUS + TB_CODEC_ENC + TB_ROPE + TB_ROPE_OBS,
        "assumptions": ["mappings string shorter than u32::MAX - 1 bytes", "encoder input sorted by generated line (any u32 values)", "ReplaceSource: positions on char boundaries or beyond the end, inner text < 4 GiB; in this view the total length of the rope built by ReplaceSource::rope is assumed to fit usize (C05's view proves it from the spliced text fitting usize)"],
        "not_covered": ["SourceMap::from_json/from_slice/from_reader (simd-json)", "every stream_chunks implementation", "Rope::lines / char_indices / hash", "ReplaceSource::stream_chunks / map"],
        "design_ref": "DESIGN.md §4/C17",
    },
    "C07": {
        "level": "proof",
        "witness": views_witness,
        "verus_units": ["concat_views", "replace_splice@C05", "rope_core@C16"],
        "technique": "contract-based deductive verification (Verus): the real ConcatSource::{source, rope, buffer, size} against the concatenation of the children's views, the children entering through the property's own statement as the trait contract (induction step over the source tree); ReplaceSource::{source, rope, size} and Rope::{to_string, to_bytes} as proved for C05 / C16",
        "claim": "Partial, unbounded proof. With two spec views per source - text() (what source() and rope() denote) and raw() (what buffer() holds and size() counts; equal to text() for UTF-8 leaves, its lossy decoding's origin for binary leaves) - "
                 "and the trait contract `source() holds text(), rope() is a well-formed rope denoting text(), buffer() holds raw(), size() == |raw()|` on the children (this IS property C07 for each child), the real ConcatSource::source, "
                 "::rope, ::buffer and ::size return exactly the concatenation of the children's text() / raw() in order, for every number of children: the single-child delegation arm, the `map(..).collect()` String path, the Rope::new + append loop "
                 "(Rope contracts as proved by rope_core), the `collect::<Vec<_>>().concat()` path and the `sum()` path all agree - so rope() renders to source(), size() == buffer().len(), and when the children's raw() == text() then buffer() is the bytes of source(). "
                 "ReplaceSource::rope renders to ReplaceSource::source, size() is its length and buffer() holds exactly its bytes (unit replace_splice, as for C05; buffer since session 4); Rope::to_string / to_bytes render exactly the denoted text (unit rope_core). "
                 "Base cases: the four views of all five leaf types - OriginalSource, SourceMapSource, RawStringSource, RawBufferSource and RawSource (string and binary arm) and the forwarding impl `Source for BoxSource` (= Arc<dyn Source>) - cut verbatim out of their `impl Source` blocks and re-assembled as impls of the reduced trait, are checked by Verus against the trait contract itself (text() = raw() = the held string's bytes; for the binary leaves (RawBufferSource, RawSource::Buffer) raw() = the exact bytes given and text() = the lazily cached lossy decoding, OnceLock::get_or_init entering by contract), so for these leaves the contract is proved, not assumed. "
                 "Not decided: to_writer (dyn Write; searched by the twin, including writers that fail after k bytes), that the cache of a binary leaf, once filled, holds the lossy decoding of its bytes (it is only written by the two identical initialisers; `lossy` itself is an uninterpreted function here), "
                 "CachedSource, ConcatSource::new / add (flat_map + downcast_ref flattening).",
        "note": "Partial: the induction step for ConcatSource and ReplaceSource, not the base cases. Trusted: Verus/Z3/vstd, rules D1 D2 D5 D6 F1 MC1 MC2 MS1, the Cow deref axioms; Arc<dyn Source> method calls dispatch to implementations that satisfy the trait contract (assumed for the leaves).",
        "trusted_base": TB_VERUS + [
            "unit concat_views: rule D5 (trait Source reduced to source / rope / buffer / size with spec views text() and raw(); its contracts are the induction hypothesis), rule D6 (Rope as an opaque type with the contracts of new / append that unit rope_core proves), "
            "rule D6f (`Rope::from(&self.field)` on a &String / &Cow<str> -> the named constructor of the opaque Rope type, contract = the single-piece rope over that string, proved on the real From impls by unit rope_build); assume_specification <Arc<T> as AsRef<T>>::as_ref (a reference to the value behind the Arc), String::as_bytes / String::len (bytes = UTF-8 encoding of the chars), OnceLock::get_or_init (returns the held value, or the initialiser's result when empty; uninterpreted cell view), rule W2 (the initialiser closure typed, with `String::from_utf8_lossy(v).to_string()` named lossy_string and `lossy` uninterpreted); rules MC1 (`X.iter().map(|c| c.source()).collect()` into a String -> push_str loop), MC2 (`X.iter().map(|c| c.buffer()).collect::<Vec<_>>().concat()` -> extend_from_slice loop), MS1 (`X.iter().map(|c| c.size()).sum()` -> `+=` loop), F1",
            "assume_specification <Cow<B> as Deref>::deref (uninterpreted target) with two axioms: the target of a Cow<str> / Cow<[u8]> is the borrowed value or the owned value's content (definition of Cow::deref)",
        ] + TB_ROPE,
        "assumptions": ["every child satisfies the trait contract (C07 for the child): proved here for ConcatSource, ReplaceSource, OriginalSource, SourceMapSource, RawStringSource, RawBufferSource and RawSource children, and the forwarding impl `Source for BoxSource` (what `children[i].source()` resolves to); assumed for CachedSource", "total text / buffer length fits usize (requires of rope() and size())",
                        "ReplaceSource: the domain preconditions of C05 (positions on char boundaries or beyond the end, text < 4 GiB)"],
        "not_covered": ["to_writer (dyn Write): only searched by the twin, with failing writers", "CachedSource (DashMap / OnceLock caches)", "ConcatSource::new / add (flattening of nested ConcatSources)", "ReplaceSource::to_writer"],
        "design_ref": "DESIGN.md §4/C07",
    },
    "C11": {
        "level": "proof",
        "witness": codec_witness,
        "verus_units": ["codec_enc"],
        "technique": "contract-based deductive verification (Verus): wire-alphabet invariant on the real encoders, proved independently of the functional contract",
        "claim": "Partial (clause 4 of 5), unbounded proof: every byte either encoder appends is a base64-VLQ character, ',' or ';' (invariant all_wire on "
                 "the buffer, established by new, preserved by encode/encode_vlq, and drain returns exactly those bytes), so every mappings string the crate "
                 "constructs consists only of those characters. Segment ordering, index ranges and announcement order are not decided.",
        "note": "Partial. Trusted as for C12; that get_map/stream_and_get_source_and_map build `mappings` only through create_encoder->encode*->drain is by reading, not proved.",
        "trusted_base": TB_VERUS + TB_CODEC_ENC,
        "assumptions": ["fields < 2^30 (so encode_vlq's precondition holds)"],
        "not_covered": ["strictly increasing generated positions", "positions before end of source()", "source/name index ranges", "announcement order in chunk streams"],
        "design_ref": "DESIGN.md §4/C11",
    },
    "C19": {
        "level": "proof",
        "witness": c19_witness,
        "verus_units": ["codec_enc", "rope_core", "rope_build", "with_indices"],
        "extra_stages": [k4_with_indices],
        "kani": True,
        "engine": "verus-extract + kani-scratch",
        "technique": "contract-based deductive verification (Verus): the unsafe call's safety precondition as a `requires` on its assume_specification, discharged from the wire-alphabet invariant",
        "claim": "Partial, unbounded proof: both String::from_utf8_unchecked call sites (encoder.rs drain x2) are reached only with ASCII bytes. "
                 "Unbounded proof (unit with_indices): WithIndices::substring reaches SourceText::byte_slice_unchecked only with an ordered, in-range, char-boundary range, for EVERY text and every index pair, and for both instances "
                 "(&str: the real byte_slice_unchecked/len of the &str impl are verified against that contract, down to str::get_unchecked; Rope: Rope::byte_slice_unchecked is proved in rope_core under exactly that precondition); "
                 "std's contract of char_indices (offsets in order, each a char boundary) enters as an assumed contract (rule W1). The bounded Kani stage K4 (five texts, all index pairs, real iterator chain) stays as a cross-check of W1. "
                 "Unbounded proof (unit rope_core): all six unchecked accessors of rope.rs - data.get_unchecked(i) x3 in get_byte_slice_impl / byte_slice_unchecked and str::get_unchecked x4 in byte_slice_unchecked - are reached only "
                 "within their safety preconditions (index < number of pieces; range in bounds on char boundaries of the piece) for every rope satisfying the representation invariant, every kind of range bound, and - for the "
                 "unsafe fn - every call that keeps its documented contract; the invariant is established by new/from/from_iter (unit rope_build) and preserved by add/append/slicing. "
                 "Bounded stand-in (Kani): Rope::get_byte_slice / get_byte on degenerate ropes (a multi-piece representation holding no piece) reach no unchecked index, for every range "
                 "(found and fixed an out-of-bounds get_unchecked). Ropes built by the Lines iterator (not under contract), Rope::char_indices and the lifetime transmutes are not decided.",
        "note": "Partial. The `requires` (all bytes < 128) on from_utf8_unchecked is a strengthening of its documented safety condition (valid UTF-8).",
        "trusted_base": TB_VERUS + TB_CODEC_ENC + TB_ROPE,
        "assumptions": ["fields < 2^30", "char_indices yields the byte offsets of the chars in order (std's contract; rule W1)", "WithIndices::indices_indexes, when filled, holds that table (it is only written by substring)", "ropes satisfy the representation invariant (proved for new/from/from_iter/add/append/slices; not for ropes handed out by the Lines iterator)"],
        "not_covered": ["that the Lines iterator establishes the representation invariant (ref patterns on struct fields)", "Rope::char_indices (the Rope instance of rule W1's assumed contract)", "lifetime-extending transmutes", "concurrent use"],
        "design_ref": "DESIGN.md §4/C19",
    },
    "C05": {
        "level": "proof",
        "witness": replace_witness,
        "verus_units": ["replace_splice", "rope_core"],
        "extra_stages": [k1_replace_inv],
        "kani": True,
        "engine": "verus-extract + kani-scratch",
        "technique": "contract-based deductive verification: Verus proof of the real ReplaceSource::source splice loop against the reference replacement model; Kani Hoare-triple harnesses {Inv} method {Inv} on the real mutators / sorted_replacement / clone (bounded n)",
        "claim": "Unbounded proof: for every inner text (UTF-8, < 4 GiB) and every replacement list with start <= end on char boundaries or beyond the end, "
                 "the real ReplaceSource::source returns splice(inner, replacements in stable (start, end, enforce) order) - the property's reference model; "
                 "ReplaceSource::rope renders to the same splice over the contracts of Rope::{new, len, byte_slice, append, add}, which unit rope_core PROVES on the real rope.rs (earlier sessions assumed them), and size() is its length. "
                 "History independence: the lazy-sort representation invariant (is_sorted => sorted_index is the stable key order) is established by new and preserved by every mutator, "
                 "by sorted_replacement and by clone from an arbitrary invariant state (Kani on the real methods; bounded: n <= 2 replacements held, n <= 3 thorough).",
        "note": "The Verus unit uses sorted_replacement's contract (result = stable key order); the Kani stage checks that contract on the real method, bounded in n. "
                "The two formulations of the order predicate (Verus stable_sorted_idx / Rust is_stable_sorted) are a trust point. Cow/str indexing through 3 assume_specifications.",
        "trusted_base": TB_VERUS + ["assume_specification: <str as Index<I>>::index (exposes vstd's own index_postcondition), <Cow<B> as Deref>::deref (uninterpreted function of the Cow), "
                                    "<Cow<str> as From<String>>::from (holds that string)", "external_body: sorted_replacement with the stable-order contract",
                                    "rules D2 D3 D5 D6 F1 L1 G1", "replace_splice sees Rope through the five method contracts (rule D6); unit rope_core proves those contracts on the real code"] + TB_ROPE,
        "assumptions": ["inner.source() is a function of the inner object (trait-level spec view `text()`)", "inner text < 4 GiB", "sum of content lengths fits usize (capacity hint dropped by D3)"],
        "not_covered": ["to_writer() (dyn Write)", "map()/stream_chunks of ReplaceSource", "n > 3 replacements for the itertools sort (bounded Kani stage)"],
        "design_ref": "DESIGN.md §4/C05",
    },
    "C16": {
        "level": "proof",
        "witness": rope_witness,
        "verus_units": ["rope_core", "rope_obs", "rope_build", "rope_bounds"],
        "technique": "contract-based deductive verification (Verus) of the real Rope constructors, mutators, byte lookup, slicing, rendering and the observers is_empty / ends_with / starts_with / == (Rope, str, &str) against the flat string the pieces denote, under a representation invariant, extracted mechanically each run",
        "claim": "Partial, unbounded proof: with bytes() = concatenation of the pieces and the invariant `every piece records its start offset, total fits usize`, the real Rope::new / From<&str> / add / append "
                 "establish or preserve the invariant and denote exactly the concatenated text for every piece division (all four representation combinations of append, shared piece tables through Rc::make_mut); "
                 "len() is the text's length; get_byte(i) is Some(text[i]) exactly for i < len, byte(i) returns text[i] without panicking for i < len; get_byte_slice_impl / get_byte_slice / byte_slice return the sub-text exactly for ranges that are in order, in bounds and on char "
                 "boundaries of the TEXT (char boundaries of a piece are char boundaries of the text and vice versa: UTF-8 lemmas over vstd) and None/Err exactly otherwise, for every kind of range bound; no overflow, underflow or "
                 "out-of-range index on that path. byte_slice_unchecked returns the same sub-text on every call that keeps its documented contract. to_bytes() and to_string() render exactly the denoted text; `rope == str` answers exactly whether the denoted text equals the string (and never slices out of range). "
                 "Unit rope_obs: is_empty() is true exactly when the denoted text is empty; ends_with(c) exactly when the text is non-empty and its last character is c (trailing empty pieces skipped); "
                 "starts_with(other) exactly when other's text is a byte prefix of this text, in all four representation combinations, for every division of either text into pieces including empty pieces and comparison windows that "
                 "cut multi-byte characters, with termination of the two-cursor loop (five genuine defects found and fixed in these three functions and in Rope == Rope, DESIGN 7). "
                 "Rope == Rope (the two-cursor loop over differently divided texts) and Rope == &str answer exactly whether the two denoted texts are equal, with every byte-slice window in range and termination. "
                 "Unit rope_build: from_iter over any finite sequence of string slices establishes the invariant and denotes exactly their concatenation (empty slices dropped); From<&String> and From<&Cow<str>> build the single-piece rope over that string. "
                 "Not decided: lines, char_indices (the twin's search observes char_indices), hash.",
        "note": "Partial. Trusted: Verus/Z3/vstd, extraction rules, the assume_specifications and two axioms listed in the evidence; get_byte additionally relies on the pinned std's binary_search_by returning the last match.",
        "trusted_base": TB_VERUS + TB_ROPE + TB_ROPE_OBS,
        "assumptions": ["total rope length fits usize (requires of add/append)", "binary_search_by returns the last of several equal elements (pinned std; used by get_byte only)"],
        "not_covered": ["Lines / CharIndices iterators", "Hash"],
        "design_ref": "DESIGN.md §4/C16",
    },
    "C14": {
        "level": "model_checking",
        "witness": eqhash_witness,
        "verus_units": [],
        "extra_stages": [k2_eq_hash],
        "kani": True,
        "engine": "kani-scratch",
        "technique": "per-type contract harnesses (Kani/CBMC) on the real PartialEq/Hash/Clone impls: eq <=> abstract value equal, hash and clone functions of the abstract value, in every reachable cache state",
        "claim": "Partial, bounded: for RawSource, RawStringSource, RawBufferSource, OriginalSource, SourceMapSource the real ==, Hash and Clone are functions of the abstract value "
                 "(caches dropped) under every interleaving of observer calls on either operand; ReplaceSource == and clone ignore the lazy-sort cache in every state satisfying the K1 invariant. "
                 "Data from a fixed catalogue (symbolic strings are intractable for CBMC here). ReplaceSource::hash beyond n = 1, ConcatSource, CachedSource and the dyn Source layer are not covered.",
        "note": "Bounded stand-in, not a proof: exhaustive in cache histories, sampled in data. Kani/CBMC trusted; harnesses are child modules of the real files in a scratch copy.",
        "trusted_base": ["Kani 0.68 + CBMC 6.11 (bit-precise symbolic execution of the compiled MIR of the real impls)", "the abstract-value functions written in the harnesses (kani/eq_hash_*.rs)"],
        "assumptions": ["data catalogue is representative (ASCII / multi-byte / invalid UTF-8; equal and unequal pairs)"],
        "not_covered": ["ReplaceSource::hash for n >= 2 (CBMC out of memory at 14 GB)", "ConcatSource (no verdict in 15 min even with two static children)", "CachedSource (Kani compiler ICE on DashMap)",
                        "Box<dyn Source> / dyn_eq / dyn_hash layer", "observers other than eq/hash/clone"],
        "design_ref": "DESIGN.md §4/C14",
    },
}
