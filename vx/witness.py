"""witness search after a failed obligation: drive the real crate against the executable twin of the spec"""
import os
import time

from vx import twin


def codec_witness(prop, failures, repo, verif, workdir, seed, log):
    names = " ".join(f.name for f in failures)
    modes = []
    if "LinesOnly" in names:
        modes.append("search-lines")
    if "codec_dec" in names:
        modes.append("search-dec")
    if "codec_enc" in names and ("Full" in names or "encode_vlq" in names or "b64" in names):
        modes.append("search-enc")
    for m in ["search-enc", "search-lines", "search-dec"]:
        if m not in modes:
            modes.append(m)
    t0 = time.time()
    try:
        binary = twin.build(repo, verif, workdir, log)
    except Exception as e:
        return {"found": False, "error": str(e)[:600]}
    tried = 0
    for m in modes:
        crit = {"C11": "wire", "C19": "wire", "C17": "panic"}.get(prop, "bytes")
        r = twin.run(binary, [m, seed + 1, 400000], crit=crit)
        tried += r["tried"]
        if r["found"]:
            log(f"  witness ({m}, {tried} inputs tried): input={r['input']}")
            log(f"    {r['detail']}")
            return {"found": True, "kind": r["kind"], "input": r["input"], "detail": r["detail"], "inputs_tried": tried,
                    "criterion": crit, "search_s": round(time.time() - t0, 1), "replays_on": "real crate built from the checked tree (twin/ against its public API; lines-only encoder via #[path] include of src/encoder.rs)"}
    log(f"  witness search: no failing input among {tried} (exhaustive small scope + random, boundary-biased)")
    return {"found": False, "inputs_tried": tried, "search_s": round(time.time() - t0, 1)}


def replace_witness(prop, failures, repo, verif, workdir, seed, log):
    if any("rope_core" in f.name or "rope_obs" in f.name or "rope_build" in f.name for f in failures):
        r = rope_witness(prop, failures, repo, verif, workdir, seed, log)
        if r.get("found") or all("rope_core" in f.name for f in failures):
            return r
    t0 = time.time()
    try:
        binary = twin.build(repo, verif, workdir, log)
    except Exception as e:
        return {"found": False, "error": str(e)[:600]}
    r = twin.run(binary, ["search-replace", seed + 1, 300000])
    if r["found"]:
        log(f"  witness (search-replace, {r['tried']} histories tried): {r['detail']}")
        return {"found": True, "kind": r["kind"], "input": r["input"], "detail": r["detail"], "inputs_tried": r["tried"], "search_s": round(time.time() - t0, 1),
                "replays_on": "real crate built from the checked tree, public API of ReplaceSource with observer calls interleaved"}
    log(f"  witness search: no failing history among {r['tried']}")
    return {"found": False, "inputs_tried": r["tried"], "search_s": round(time.time() - t0, 1)}


def eqhash_witness(prop, failures, repo, verif, workdir, seed, log):
    t0 = time.time()
    try:
        binary = twin.build(repo, verif, workdir, log)
    except Exception as e:
        return {"found": False, "error": str(e)[:600]}
    r = twin.run(binary, ["search-eqhash", seed + 1, 200000])
    if r["found"]:
        log(f"  witness (search-eqhash, {r['tried']} pairs/histories tried): {r['detail']}")
        return {"found": True, "kind": r["kind"], "input": r["input"], "detail": r["detail"], "inputs_tried": r["tried"], "search_s": round(time.time() - t0, 1),
                "replays_on": "real crate built from the checked tree; pairs of boxed sources with observer histories"}
    log(f"  witness search: no incoherent pair/history among {r['tried']}")
    # "every observer returns the same answer each time it is called on an unchanged value" - the ReplaceSource history
    # search (value and a diverging clone, all content views) belongs to C14 as well
    r2 = replace_witness(prop, failures, repo, verif, workdir, seed, log)
    if r2.get("found"):
        return r2
    return {"found": False, "inputs_tried": r["tried"] + r2.get("inputs_tried", 0), "search_s": round(time.time() - t0, 1)}


def wildmap_witness(prop, failures, repo, verif, workdir, seed, log):
    t0 = time.time()
    try:
        binary = twin.build(repo, verif, workdir, log)
    except Exception as e:
        return {"found": False, "error": str(e)[:600]}
    # only a panic of the kind the failed obligation names counts (arith-overflow -> "overflow")
    rx = "overflow" if any("overflow" in f.name for f in failures) else ""
    os.environ["TWIN_PANIC_RX"] = rx
    r = twin.run(binary, ["search-wildmap", seed + 1, 60000])
    os.environ.pop("TWIN_PANIC_RX", None)
    if r["found"]:
        log(f"  witness (search-wildmap, {r['tried']} wild maps tried): {r['detail']}")
        return {"found": True, "kind": r["kind"], "input": r["input"], "detail": r["detail"], "inputs_tried": r["tried"], "search_s": round(time.time() - t0, 1),
                "replays_on": "real crate built from the checked tree: ReplaceSource over SourceMapSource with a wild map, map()/source() through the public API"}
    log(f"  witness search: no panic among {r['tried']} wild maps")
    return {"found": False, "inputs_tried": r["tried"], "search_s": round(time.time() - t0, 1)}


def tokens_witness(prop, failures, repo, verif, workdir, seed, log):
    t0 = time.time()
    try:
        binary = twin.build(repo, verif, workdir, log)
    except Exception as e:
        return {"found": False, "error": str(e)[:600]}
    r = twin.run(binary, ["search-tokens", seed + 1, 15000], timeout=60)
    if r["found"]:
        log(f"  witness (search-tokens, {r['tried']} texts tried): {r['detail']}")
        return {"found": True, "kind": r["kind"], "input": r["input"], "detail": r["detail"], "inputs_tried": r["tried"], "search_s": round(time.time() - t0, 1),
                "replays_on": "real crate built from the checked tree: OriginalSource::map on arbitrary UTF-8 text"}
    log(f"  witness search: no panic among {r['tried']} texts")
    return {"found": False, "inputs_tried": r["tried"], "search_s": round(time.time() - t0, 1)}


def ropebounds_witness(prop, failures, repo, verif, workdir, seed, log):
    t0 = time.time()
    try:
        binary = twin.build(repo, verif, workdir, log)
    except Exception as e:
        return {"found": False, "error": str(e)[:600]}
    r = twin.run(binary, ["search-ropebounds", seed + 1], timeout=60)
    if r["found"]:
        log(f"  witness (search-ropebounds, {r['tried']} ranges tried): {r['detail']}")
        return {"found": True, "kind": r["kind"], "input": r["input"], "detail": r["detail"], "inputs_tried": r["tried"], "search_s": round(time.time() - t0, 1),
                "replays_on": "real crate built from the checked tree: Rope::get_byte_slice through the public API"}
    log(f"  witness search: no panic among {r['tried']} extreme ranges")
    return {"found": False, "inputs_tried": r["tried"], "search_s": round(time.time() - t0, 1)}


ROPE_CRIT = {"C19": "unsafe", "C17": "panic"}


def rope_witness(prop, failures, repo, verif, workdir, seed, log):
    """random rope programs against the flat-string model; criterion by property (C16/C05: any wrong answer, panic or abort;
    C17: panic or abort; C19: abort by std's unsafe-precondition check, or a wrong byte_slice_unchecked answer on a valid range)"""
    t0 = time.time()
    try:
        binary = twin.build(repo, verif, workdir, log)
    except Exception as e:
        return {"found": False, "error": str(e)[:600]}
    crit = ROPE_CRIT.get(prop, "any")
    r = twin.run(binary, ["search-rope", seed + 1, 2500, crit], timeout=280)
    if r["found"]:
        log(f"  witness (search-rope/{crit}, {r['tried']} rope programs tried): {r['input']}: {r['detail']}")
        return {"found": True, "kind": "rope", "input": r["input"], "detail": r["detail"], "inputs_tried": r["tried"], "criterion": crit, "search_s": round(time.time() - t0, 1),
                "replays_on": "real crate built from the checked tree (debug build): public API of Rope, every observation against a String model"}
    log(f"  witness search: no failing rope program among {r['tried']} (criterion {crit})")
    return {"found": False, "inputs_tried": r["tried"], "search_s": round(time.time() - t0, 1)}


def views_witness(prop, failures, repo, verif, workdir, seed, log):
    """C07: random source trees (string / buffer / original leaves, ConcatSource via new and add, nested, boxed, cached, replace) - every
    content view against the model (text, raw bytes), to_writer against buffer() also with a writer that fails after k bytes"""
    t0 = time.time()
    try:
        binary = twin.build(repo, verif, workdir, log)
    except Exception as e:
        return {"found": False, "error": str(e)[:600]}
    r = twin.run(binary, ["search-views", seed + 1, 4000], timeout=280)
    if r["found"]:
        log(f"  witness (search-views, {r['tried']} source trees tried): {r['input']}: {r['detail']}")
        return {"found": True, "kind": "views", "input": r["input"], "detail": r["detail"], "inputs_tried": r["tried"], "search_s": round(time.time() - t0, 1),
                "replays_on": "real crate built from the checked tree (debug build): public API of the source types, all five content views against a (text, raw bytes) model"}
    log(f"  witness search: no failing source tree among {r['tried']}")
    if any("replace_splice" in f.name for f in failures):
        return replace_witness(prop, failures, repo, verif, workdir, seed, log)
    return {"found": False, "inputs_tried": r["tried"], "search_s": round(time.time() - t0, 1)}


def c19_witness(prop, failures, repo, verif, workdir, seed, log):
    if any("rope_core" in f.name or "rope_obs" in f.name or "rope_build" in f.name for f in failures):
        return rope_witness(prop, failures, repo, verif, workdir, seed, log)
    if any("rope_degenerate" in f.name for f in failures):
        t0 = time.time()
        try:
            binary = twin.build(repo, verif, workdir, log)
        except Exception as e:
            return {"found": False, "error": str(e)[:600]}
        r = twin.run(binary, ["search-ropedegenerate", seed + 1], timeout=60)
        if r["found"]:
            r["kind"] = "ropedegenerate"
            log(f"  witness (search-ropedegenerate): Rope::from_iter shape:range {r['input']}: {r['detail']}")
            return {"found": True, "kind": "ropedegenerate", "input": r["input"], "detail": r["detail"], "inputs_tried": r["tried"], "search_s": round(time.time() - t0, 1),
                    "replays_on": "real crate built from the checked tree (debug build: std checks the precondition of get_unchecked and aborts)"}
        return {"found": False, "inputs_tried": r["tried"], "search_s": round(time.time() - t0, 1)}
    return codec_witness(prop, failures, repo, verif, workdir, seed, log)


def mixed_witness(prop, failures, repo, verif, workdir, seed, log):
    if any("rope_core" in f.name or "rope_obs" in f.name or "rope_build" in f.name for f in failures):
        return rope_witness(prop, failures, repo, verif, workdir, seed, log)
    if any("rope_bounds" in f.name for f in failures):
        return ropebounds_witness(prop, failures, repo, verif, workdir, seed, log)
    if any("helpers_tokens" in f.name for f in failures):
        return tokens_witness(prop, failures, repo, verif, workdir, seed, log)
    if any("replace_helpers" in f.name for f in failures):
        return wildmap_witness(prop, failures, repo, verif, workdir, seed, log)
    if any("replace_" in f.name for f in failures):
        return replace_witness(prop, failures, repo, verif, workdir, seed, log)
    return codec_witness(prop, failures, repo, verif, workdir, seed, log)


def replay(prop, path, repo, verif, workdir, log):
    import json
    j = json.load(open(path))
    w = j.get("witness") or {}
    if not w.get("found"):
        return None
    binary = twin.build(repo, verif, workdir, log)
    kind = {"enc": "replay-enc", "lines": "replay-lines", "dec": "replay-dec", "replace": "replay-replace", "eqhash": "replay-eqhash", "wildmap": "replay-wildmap", "tokens": "replay-tokens", "ropebounds": "replay-ropebounds", "ropedegenerate": "replay-ropedegenerate", "rope": "replay-rope", "views": "replay-views"}[w["kind"]]
    inp = w["input"]
    if w["kind"] == "dec":
        import ast
        inp = ast.literal_eval(inp) if inp.startswith('"') else inp
    import subprocess
    crit = {"C11": "wire", "C19": "wire", "C17": "panic"}.get(prop, "bytes") if w["kind"] in ("enc", "lines", "dec") else "bytes"
    try:
        p = subprocess.run([binary, kind, inp], capture_output=True, text=True, timeout=60, env=dict(os.environ, TWIN_CRIT=crit, TWIN_ROPE_CRIT=w.get("criterion", "any")))
    except subprocess.TimeoutExpired:
        log("REPRODUCED: the real code does not return within 60 s on the recorded input (hang)")
        return True
    log(p.stdout.strip())
    if p.returncode < 0 or p.returncode == 134:
        log("REPRODUCED: the process aborts on the recorded input (" + (p.stderr.strip().splitlines() or ["signal"])[0][:200] + ")")
        return True
    return p.returncode == 1
