#!/usr/bin/env python3
"""vx/fingerprint.py [--repo DIR]: (re)record contracts/fingerprints.json - the control-structure fingerprint of every
function of every unit, taken from the tree the sidecar proofs were written on (run on the pinned /repo after a
deliberate change to the repository or to a sidecar; never at check time)."""
import importlib, json, os, sys
VERIF = os.path.dirname(os.path.dirname(os.path.abspath(__file__)))
sys.path.insert(0, VERIF)
from vx.extract import Unit, fn_fingerprints
repo = sys.argv[sys.argv.index("--repo") + 1] if "--repo" in sys.argv else "/repo"
out = {}
for f in sorted(os.listdir(os.path.join(VERIF, "contracts"))):
    if not f.endswith(".py") or f.startswith("_"):
        continue
    name = f[:-3]
    mod = importlib.import_module("contracts." + name)
    u = Unit(name, repo, VERIF)
    mod.build(u)
    d = {}
    for it in u.items:
        for fn, fp in fn_fingerprints(it.raw_text).items():
            d[f"{it.relpath}::{it.anchor.split(' :: ')[0][:60]}::{fn}"] = fp
    out[name] = d
json.dump(out, open(os.path.join(VERIF, "contracts", "fingerprints.json"), "w"), indent=1, sort_keys=True)
print({k: len(v) for k, v in out.items()})
