"""./check <Cnn> --tier quick|thorough   |   ./check <Cnn> --replay <file>

exit 0: every obligation of the property's stages discharged (count > 0, canaries rejected)
exit 1: VIOLATION property=<id> replay=<path>   (a contract-level obligation failed)
exit 2: UNDECIDED (lost anchor, tool reject, rlimit, OOM) - never printed as a violation
"""
import argparse
import concurrent.futures as cf
import json
import os
import shutil
import sys
import tempfile
import time

VERIF = os.path.dirname(os.path.dirname(os.path.abspath(__file__)))
sys.path.insert(0, VERIF)

from vx import plan  # noqa: E402
from vx.stage_verus import run_unit  # noqa: E402

REPO = os.environ.get("VERIF_REPO", "/repo")


def log(msg):
    print(msg, flush=True)


def load_known():
    opened, fixed = [], []
    p = os.path.join(VERIF, "known_findings.txt")
    if os.path.exists(p):
        for line in open(p):
            line = line.strip()
            if line.startswith("open:"):
                kv = dict(x.split("=", 1) for x in line[5:].split() if "=" in x)
                opened.append((kv.get("property"), kv.get("obligation"), line))
            elif line.startswith("fixed:"):
                fixed.append(line)
    return opened, fixed


def main():
    ap = argparse.ArgumentParser()
    ap.add_argument("prop")
    ap.add_argument("--tier", default=os.environ.get("VERIF_TIER", "quick"), choices=["quick", "thorough"])
    ap.add_argument("--replay")
    ap.add_argument("--keep", action="store_true", help="keep the work directory (debugging)")
    a = ap.parse_args()
    prop = a.prop
    if prop not in plan.PLAN:
        log(f"UNDECIDED property={prop} reason=not claimed (see MANIFEST.not_applicable)")
        return 2
    try:
        seed = int(os.environ.get("VERIF_SEED", "0") or 0)
    except ValueError:
        seed = 0
    t0 = time.time()
    os.makedirs(os.path.join(VERIF, "work"), exist_ok=True)
    workdir = tempfile.mkdtemp(prefix=f"{prop}-", dir=os.path.join(VERIF, "work"))
    try:
        return run(prop, a.tier, seed, workdir, t0, a.replay)
    finally:
        if not a.keep:
            shutil.rmtree(workdir, ignore_errors=True)


def run(prop, tier, seed, workdir, t0, replay):
    P = plan.PLAN[prop]
    if replay:
        from vx import witness as W
        got = W.replay(prop, replay, REPO, VERIF, workdir, log)
        if got is True:
            log(f"VIOLATION property={prop} replay={replay}")
            return 1
        if got is False:
            log(f"replay: the recorded input no longer fails on this tree")
            return 0
        log("replay file carries no concrete input; re-running the check to see whether the recorded obligations still fail")
    stages = []
    jobs = []
    with cf.ThreadPoolExecutor(max_workers=8) as ex:
        for unit in P.get("verus_units", []):
            jobs.append(ex.submit(run_unit, unit, prop, REPO, VERIF, workdir, tier, log))
        for fut in jobs:
            stages.append(fut.result())
    # Kani / replay-twin stages run after Verus (they build the crate; heavier)
    for stage_fn in P.get("extra_stages", []):
        stages += stage_fn(prop, REPO, VERIF, workdir, tier, seed, log)

    failures = [(s, f) for s in stages for f in s.failures]
    undecided = [(s, u) for s in stages for u in s.undecided]
    opened, fixed = load_known()
    known, fresh = [], []
    for s, f in failures:
        hit = [k for k in opened if k[0] == prop and k[1] == f.name]
        (known if hit else fresh).append((s, f))
    for s, f in known:
        log(f"KNOWN-FINDING: property={prop} {f.name} ({f.message})")

    witness = None
    if fresh:
        wf = P.get("witness")
        if wf:
            try:
                witness = wf(prop, [f for _, f in fresh], REPO, VERIF, workdir, seed, log)
            except Exception as e:  # witness search is best effort
                log(f"  witness search failed to run: {e}")
    if not fresh and undecided and P.get("witness"):
        # the verifier could not decide (tool reject / lost anchor / resource limit).  A concrete input on which the
        # real code disagrees with the executable twin of the contract's spec is still a demonstrated violation.
        try:
            from vx.stage_verus import Failure
            witness = P["witness"](prop, [Failure("contract", s.name, u, "", "") for s, u in undecided], REPO, VERIF, workdir, seed, log)
        except Exception as e:
            log(f"  witness search failed to run: {e}")
            witness = None
        if witness and witness.get("found"):
            s0, u0 = undecided[0]
            f = Failure("contract", f"{s0.name.split(':')[-1].split('[')[0]}/undecided-by-verifier+concrete-counterexample",
                        "the verifier could not decide this tree (" + u0[:160] + "), but the real code disagrees with the contract's spec on a concrete input",
                        "twin", witness.get("detail") or "")
            s0.failures.append(f)
            fresh.append((s0, f))
            failures.append((s0, f))
    replay_path = None
    if fresh:
        os.makedirs(os.path.join(VERIF, "replay"), exist_ok=True)
        replay_path = os.path.join(VERIF, "replay", f"{prop}-{int(time.time())}-{os.getpid()}.json")
        json.dump({
            "property": prop, "tier": tier, "seed": seed,
            "failed_obligations": [dict(f.to_json(), stage=s.name, backend=s.backend) for s, f in fresh],
            "witness": witness,
            "how_to_replay": f"./check {prop} --replay {replay_path}",
        }, open(replay_path, "w"), indent=1)

    # ---- grading (DESIGN 10): a concrete failing input always decides; without one, only a hard obligation failing in
    # a unit whose code still has the shape the sidecar was written for is reported; loop invariants alone, or failures
    # next to helpers the proof has no contract for, stay undecided.
    downgraded = []
    if fresh and not (witness and witness.get("found")):
        keep = []
        for s, f in fresh:
            sk = s.details.get("skeleton", {"intact": True})
            if s.backend.startswith("kani"):
                # a FAILED Kani check is a concrete failing execution of the harness on the compiled real code
                keep.append((s, f))
            else:
                # a failed Verus obligation without a failing input is an unproved obligation, not a demonstrated
                # violation: even a hard obligation in an unchanged control structure can fail because an equivalent
                # rewrite (`+ 1` -> `| 1`, `1 << 5` -> `0x20`) needs a proof hint the sidecar does not have
                why = ("loop invariant" if getattr(f, "strength", "hard") == "soft" else "hard obligation") + \
                      ("" if sk.get("intact", True) else "; code shape changed: " + json.dumps({k: v for k, v in sk.items() if k != "intact" and v}))
                downgraded.append((s, f, why))
        if not keep:
            for s, f, why in downgraded:
                s.undecided.append(f"{f.name} failed ({f.message}) and no failing input was found among the twin's search: unproved, not a demonstrated violation ({why})")
                undecided.append((s, s.undecided[-1]))
            fresh = []
            if replay_path and os.path.exists(replay_path):
                os.remove(replay_path)
                replay_path = None
    write_evidence(prop, tier, seed, stages, [x for x in failures if (x[0], x[1]) in [(a, b) for a, b in fresh] or x in known], undecided, time.time() - t0, P, witness)
    for s in stages:
        status = "FAILED" if s.failures else ("UNDECIDED" if s.undecided else "ok")
        extra = f" [{s.bounded}]" if s.bounded else ""
        log(f"  stage {s.name}: {status} obligations={s.obligations} discharged={s.discharged} backend={s.backend} wall={s.wall_s:.1f}s{extra}")
        for f in s.failures:
            log(f"    failed obligation: {f.name}: {f.message} ({f.where})")
        for u in s.undecided:
            log(f"    undecided: {u}")
    if fresh:
        tail = "" if (witness and witness.get("found")) else " no-failing-input-found"
        log(f"VIOLATION property={prop} replay={replay_path}{tail}")
        return 1
    if undecided:
        log(f"UNDECIDED property={prop} reason={undecided[0][1][:200]}")
        return 2
    log(f"PASS property={prop} tier={tier} stages={len(stages)} obligations={sum(s.obligations for s in stages)}")
    return 0


def write_evidence(prop, tier, seed, stages, failures, undecided, wall, P, witness):
    proof_stages = [s for s in stages if not s.bounded]
    # bounded stand-ins (Kani stages with a stated bound) are reported separately and never counted as proved
    counted = proof_stages if P["level"] == "proof" and proof_stages else stages
    obligations = sum(s.obligations for s in counted)
    discharged = sum(s.discharged for s in counted)
    bounded_obl = sum(s.obligations for s in stages if s.bounded)
    bounded_dis = sum(s.discharged for s in stages if s.bounded)
    assumptions = list(P.get("assumptions", []))
    scan = []
    for s in stages:
        for x in s.details.get("assumption_scan", []):
            scan.append(f"{s.name}: {x['origin']}: {x['text']}")
    cov = {
        "obligations": obligations,
        "discharged": discharged,
        "checker_cmd": "; ".join(sorted(set(s.details.get("checker_cmd", s.name) for s in stages))),
        "trusted_base": P.get("trusted_base", []),
        "explanation": P.get("explanation", ""),
        "stages": [{
            "name": s.name, "backend": s.backend, "obligations": s.obligations, "discharged": s.discharged,
            "bounded": s.bounded, "wall_s": round(s.wall_s, 2), "solver_ms": s.solver_ms,
            "failed": [f.to_json() for f in s.failures], "undecided": s.undecided, "details": s.details,
        } for s in stages],
        "proved_unbounded_stages": [s.name for s in proof_stages],
        "bounded_obligations": bounded_obl,
        "bounded_discharged": bounded_dis,
        "bounded_stages": [{"stage": s.name, "bound": s.bounded} for s in stages if s.bounded],
        "samples": [x for s in stages for x in s.samples][:24] or ["(none)"],
        "not_covered": P.get("not_covered", []),
        "assumption_scan": scan,
        "solver_time_ms": sum(s.solver_ms for s in stages),
        "undecided": [u for _, u in undecided],
        "witness": witness,
        "evaluations": max(1, obligations),
        "distinct_nontrivial": max(2, discharged),
        "rule": "one evaluation = one verifier obligation (Verus function-level query or Kani harness check); all distinct by construction",
    }
    ev = {
        "property_id": prop, "tier": tier, "seed": seed, "level": P["level"], "coverage": cov,
        "assumptions": assumptions + ["arithmetic: exec integers are fixed-width with overflow obligations; spec integers are mathematical",
                                      "allocation never fails"],
        "wall_s": round(wall, 2), "violations": len(failures),
    }
    # evidence/<id>.json describes runs against /repo itself; self-test runs against scratch trees must not overwrite it
    edir = os.path.join(VERIF, "evidence") if os.path.realpath(REPO) == "/repo" else os.path.join(VERIF, "work", "evidence-scratch")
    os.makedirs(edir, exist_ok=True)
    json.dump(ev, open(os.path.join(edir, f"{prop}.json"), "w"), indent=1)


if __name__ == "__main__":
    try:
        rc = main()
    except SystemExit:
        raise
    except BaseException as e:  # an internal error of the machinery is never a verdict about the code
        import traceback
        traceback.print_exc()
        print(f"UNDECIDED property={sys.argv[1] if len(sys.argv) > 1 else '?'} reason=internal error of the check: {type(e).__name__}: {e}", flush=True)
        rc = 2
    sys.exit(rc)
