"""U6 helpers_tokens: PotentialTokens::next (the tokenizer OriginalSource streams with) never slices out of range or
off a char boundary, always makes progress, and returns exactly the next consecutive slice of the text (C17).
`SourceText` is reduced (D5) to the two methods next() calls, with the contracts the &str instance has by std
(get_byte = bytes.get(i); byte_slice requires an in-range char-boundary range) - assumed for the Rope instance."""
import re

from vx.extract import Lost, code_mask

NAME = "helpers_tokens"
PROPS = ["C17"]
RLIMIT = 60

GLUE_TRAIT = r"""
// D5: trait SourceText reduced to the two methods PotentialTokens::next calls; `chars()` is the spec view
// (the text is the UTF-8 encoding of a char sequence)
pub trait SourceText<'a>: Sized {
  spec fn chars(&self) -> Seq<char>;
  fn get_byte(&self, byte_index: usize) -> (r: Option<u8>)
    ensures r == (if byte_index < encode_utf8(self.chars()).len() { Some(encode_utf8(self.chars())[byte_index as int]) } else { None::<u8> }),
      encode_utf8(self.chars()).len() <= usize::MAX;
  fn byte_slice(&self, range: Range<usize>) -> (r: Self)
    requires range.start <= range.end <= encode_utf8(self.chars()).len(),
      is_char_boundary(encode_utf8(self.chars()), range.start as int), is_char_boundary(encode_utf8(self.chars()), range.end as int)
    ensures encode_utf8(r.chars()) == encode_utf8(self.chars()).subrange(range.start as int, range.end as int);
}
"""

GLUE_VIEW = r"""
impl<'a, S> PotentialTokens<'a, S>
where
  S: SourceText<'a>,
{
  pub closed spec fn text(&self) -> Seq<u8> { encode_utf8(self.source.chars()) }
  pub closed spec fn pos(&self) -> int { self.index as int }
  pub closed spec fn wf(&self) -> bool { self.index <= self.text().len() && is_char_boundary(self.text(), self.index as int) }
}
"""


def build(u):
    for x in ["use vstd::utf8::*;", "use std::marker::PhantomData;", "use std::ops::Range;"]:
        u.use(x)
    u.raw("broadcast use {vstd::string::group_string_axioms, vstd::utf8::group_utf8_lib};", ("glue", NAME))
    u.spec("utf8_lemmas.rs")
    u.raw(GLUE_TRAIT, ("glue", NAME))
    u.item("src/helpers.rs", "pub struct PotentialTokens<'a, S>")
    u.raw(GLUE_VIEW, ("glue", NAME))
    it = u.item("src/helpers.rs", "impl<'a, S> Iterator for PotentialTokens<'a, S>")
    it.rule("D1", r"impl<'a, S> Iterator for PotentialTokens<'a, S>", "impl<'a, S> PotentialTokens<'a, S>")
    it.rule("D1", r"\n\s*type Item = S;\n", "\n")
    it.rule("D1", r"Option<Self::Item>", "Option<S>")
    it.sig("next", [
        ("PotentialTokens::next.requires", "contract", "requires old(self).wf()"),
        ("PotentialTokens::next.ensures", "contract",
         "ensures final(self).wf(), final(self).text() == old(self).text(),\n"
         "  (match r {\n"
         "    None => old(self).pos() >= old(self).text().len() && final(self).pos() == old(self).pos(),\n"
         "    Some(t) => old(self).pos() < final(self).pos() && encode_utf8(t.chars()) == old(self).text().subrange(old(self).pos(), final(self).pos()),\n"
         "  })"),
    ], ret="r")
    COMMON = ("invariant self.text() == old(self).text(), start == old(self).pos(), start <= self.index < self.text().len(),\n"
              "  is_char_boundary(self.text(), start as int), c == self.text()[self.index as int] as char, self.text().len() <= usize::MAX,")
    it.loop("next", 1, [("PotentialTokens::next.loop1.inv", "contract", COMMON),
                        ("PotentialTokens::next.loop1.dec", "contract", "decreases self.text().len() - self.index")])
    it.loop("next", 2, [("PotentialTokens::next.loop2.inv", "contract",
                         COMMON + "\n  is_char_boundary(self.text(), self.index as int),\n"
                         "  self.index > start || c == '\\n' || c == ';' || c == '{' || c == '}',"),
                        ("PotentialTokens::next.loop2.dec", "contract", "decreases self.text().len() - self.index")])
    it.loop_body_start("next", 2, "PotentialTokens::next.hint.step", "hint",
                       "proof { lemma_ascii_next_boundary(self.source.chars(), self.index as int); }")
    it.at("next", "before", r"while\s+c\s*==", "PotentialTokens::next.hint.delim", "hint",
          "proof { lemma_ascii_boundary(self.source.chars(), self.index as int); }", regex=True, nth=1)
    it.at("next", "before", r"self\.index\s*\+=\s*1;", "PotentialTokens::next.hint.newline", "hint",
          "proof { lemma_ascii_next_boundary(self.source.chars(), self.index as int); }", regex=True, nth=3)
    it.body_start("next", "PotentialTokens::next.hint.ends", "hint",
                  "proof { encode_utf8_valid_utf8(self.source.chars()); is_char_boundary_start_end_of_seq(encode_utf8(self.source.chars())); }")
    it.body_start("next", "canary.PotentialTokens::next", "canary", "proof { assert(false); }")
    it.loop_body_start("next", 1, "canary.PotentialTokens::next.loop1", "canary", "proof { assert(false); }")
    it.loop_body_start("next", 2, "canary.PotentialTokens::next.loop2", "canary", "proof { assert(false); }")
    u.contracted += [("PotentialTokens::next", "src/helpers.rs")]
