"""U3 codec_thm: spec-level theorems over the contracts of U1/U2 (no repository code except the two
data structs): round trip, attribution, re-encode idempotence, iterator protocol, lines-only."""
NAME = "codec_thm"
PROPS = ["C12"]
RLIMIT = 60


def build(u):
    u.item("src/source.rs", "pub struct Mapping {")
    u.item("src/source.rs", "pub struct OriginalLocation {")
    u.spec("codec_spec.rs")
    u.spec("lines_spec.rs")
    u.spec("codec_all_spec.rs")
    u.spec("codec_next_bounds.rs")
    u.spec("codec_thm.rs")
    u.spec("lines_all_spec.rs")
    u.spec("lines_thm.rs")
    u.theorems += ["theorem_roundtrip", "theorem_attribution", "lemma_enc_kept", "lemma_iter_is_all", "theorem_lines_only",
                   "lemma_run_digits", "lemma_run_semis", "lemma_run_comma", "lemma_step"]
