"""U10 rope_build: `impl FromIterator<&str> for Rope` (src/rope.rs) - the one constructor rope_core leaves out.  Proved: the rope
built from any finite sequence of string slices satisfies the representation invariant `wf` (every piece records its start offset:
what the unchecked accessors of C19 and every contract of rope_core / rope_obs rely on) and denotes exactly the concatenation of the
slices (C16), without overflow as long as the total fits usize (C17)."""
import re

from contracts.rope_core import GLUE_VIEW, IMPL

NAME = "rope_build"
PROPS = ["C16", "C17", "C19"]
RLIMIT = 200


COW_GLUE = r"""
// what a Cow<str> holds, as in spec/concat_spec.rs (std: deref of Borrowed(b) is b, of Owned(o) is o.borrow())
pub uninterp spec fn cow_target<'a, 'b, B: ?Sized + ToOwned>(c: &'b Cow<'a, B>) -> &'b B;
pub assume_specification<'a, 'b, B: ?Sized + ToOwned>[<Cow<'a, B> as std::ops::Deref>::deref](c: &'b Cow<'a, B>) -> (r: &'b B)
  ensures r == cow_target(c);
pub open spec fn cow_str_bytes(c: &Cow<str>) -> Seq<u8> { match c { Cow::Borrowed(b) => b.spec_bytes(), Cow::Owned(s) => encode_utf8(s@) } }
pub broadcast axiom fn axiom_cow_str_deref(c: &Cow<str>) ensures #[trigger] cow_target::<str>(c).spec_bytes() == cow_str_bytes(c);
"""


def build(u):
    u.header.insert(0, "#![feature(allocator_api, clone_to_uninit)]")
    for x in ["use vstd::string::StringSliceAdditionalSpecFns;", "use vstd::slice::SliceIndexSpec;", "use vstd::utf8::*;",
              "use std::rc::Rc;", "use std::ops::{Bound, RangeBounds};", "use std::cmp::Ordering;", "use std::slice::SliceIndex;", "use std::borrow::Cow;"]:
        u.use(x)
    u.spec("rope_spec.rs")
    u.spec("rope_build_spec.rs")
    u.raw(COW_GLUE, ("glue", NAME))
    u.raw("broadcast use {vstd::string::group_string_axioms, rope_ax::axiom_str_len_bound};", ("glue", NAME))
    r = u.item("src/rope.rs", "pub(crate) enum Repr<'a> {")
    r.rule("V1", r"pub\(crate\) enum Repr", "pub enum Repr")
    u.item("src/rope.rs", "pub struct Rope<'a> {")
    u.raw(GLUE_VIEW, ("glue", NAME))
    u.raw(IMPL, ("glue", NAME))
    FN = "from_iter"
    f = u.method("src/rope.rs", "impl<'a> FromIterator<&'a str> for Rope<'a> {", FN)
    # G3: `T: IntoIterator<Item = &'a str>` -> `Vec<&'a str>`: the body uses `iter` only through `into_iter()` and consumes it to the
    # end (`collect`), so all that matters is the finite sequence of items it yields, and every finite sequence is yielded by some Vec
    f.rule("G3", r"fn from_iter<T: IntoIterator<Item = &'a str>>\(iter: T\)", "fn from_iter(iter: Vec<&'a str>)", fn=None)
    # FM1: `let X = I.into_iter().filter_map(|p| { if C { return None; } BODY Some(E) }).collect::<Vec<_>>();` ->
    # `let mut X = Vec::new(); for p in it: I { if C { } else { BODY X.push(E); } }` (definition of filter_map + collect for a closure whose
    # exits are one guarded `return None` and the trailing `Some(E)`; Verus has no iterator adapters, no closures capturing `&mut`)
    f.rule("FM1", r"let (\w+) = (\w+)\s*\.into_iter\(\)\s*\.filter_map\(\|(\w+)\| \{\s*if ([^{]+?) \{\s*return None;\s*\}\n(.*?)\n\s*Some\((\w+)\)\s*\}\)\s*\.collect::<Vec<_>>\(\);",
           lambda m: f"let mut {m.group(1)} = Vec::new();\n    for {m.group(3)} in it: {m.group(2)}\n    {{\n      if {m.group(4)} {{\n      }} else {{\n{m.group(5)}\n        {m.group(1)}.push({m.group(6)});\n      }}\n    }}", fn=FN)
    f.sig(FN, [("Rope::from_iter.requires", "contract", "requires strs_bytes(iter@).len() <= usize::MAX"),
               ("Rope::from_iter.ensures", "contract", "ensures r.wf(), r.bytes() == strs_bytes(iter@)")], ret="r")
    f.body_start(FN, "Rope::from_iter.ghost.v", "ghost", "let ghost v = iter@;")
    f.loop(FN, 1, [("Rope::from_iter.loop1.inv", "contract",
                    "invariant chunks_wf(raw@), chunks_bytes(raw@) == strs_bytes(v.take(it.index@ as int)), len == chunks_bytes(raw@).len(), strs_bytes(v).len() <= usize::MAX, v == iter@,")])
    f.at(FN, "after", r"let mut raw = Vec::new\(\);", "Rope::from_iter.hint.init", "hint",
         "proof { lemma_chunks_wf_empty(); assert(v.take(0) =~= Seq::<&str>::empty()); assert(raw@ =~= Seq::<(&str, usize)>::empty()); }", regex=True, nth=1)
    f.loop_body_start(FN, 1, "Rope::from_iter.hint.step", "hint",
                      "proof { lemma_strs_take(v, it.index@ as int); if chunk.spec_bytes().len() == 0 { assert(strs_bytes(v.take(it.index@ as int)) + chunk.spec_bytes() =~= strs_bytes(v.take(it.index@ as int))); } }")
    f.at(FN, "before", r"raw\.push\(cur\);", "Rope::from_iter.hint.push", "hint", "proof { lemma_chunks_push(raw@, cur); }", regex=True, nth=1)
    _, _, bc = f.loop_span(FN, 1)
    f.buf.insert_at(bc + 1, ["    proof { assert(v.take(v.len() as int) =~= v); }"], f._org("Rope::from_iter.hint.end", "hint", FN, None))
    f.body_start(FN, "canary.Rope::from_iter", "canary", "proof { assert(false); }")
    f.loop_body_start(FN, 1, "canary.Rope::from_iter.loop1", "canary", "proof { assert(false); }")
    # ---- From<&String> / From<&Cow<str>>: the single-piece rope over that string (the contracts unit concat_views uses, rule D6f) ----
    fs = u.method("src/rope.rs", "impl<'a> From<&'a String> for Rope<'a> {", "from")
    fs.rule("D1", r"fn from\(", "fn from_string(")
    fs.sig("from_string", [("Rope::from_string.ensures", "contract", "ensures r.wf(), r.bytes() == encode_utf8(value@)")], ret="r")
    fs.body_start("from_string", "Rope::from_string.hint", "hint", "broadcast use {vstd::string::group_string_axioms, vstd::utf8::group_utf8_lib};")
    fs.body_start("from_string", "canary.Rope::from_string", "canary", "proof { assert(false); }")
    fc = u.method("src/rope.rs", "impl<'a> From<&'a Cow<'a, str>> for Rope<'a> {", "from")
    fc.rule("D1", r"fn from\(", "fn from_cow(")
    fc.sig("from_cow", [("Rope::from_cow.ensures", "contract", "ensures r.wf(), r.bytes() == cow_str_bytes(value)")], ret="r")
    fc.body_start("from_cow", "Rope::from_cow.hint", "hint", "broadcast use axiom_cow_str_deref;")
    fc.body_start("from_cow", "canary.Rope::from_cow", "canary", "proof { assert(false); }")
    u.raw("}", ("glue", NAME))
    u.contracted += [("<Rope as FromIterator<&str>>::from_iter", "src/rope.rs"), ("<Rope as From<&String>>::from", "src/rope.rs"), ("<Rope as From<&Cow<str>>>::from", "src/rope.rs")]
