"""U2 codec_dec: MappingsDecoder::{new,next} and the B64 table against the byte-level v3 reader.

Serves C12 (decoder == format-level reader dec_next), C17 (next() total: no overflow, no shift
overflow, no index out of range, terminates).
"""
import re

from vx.extract import Lost, code_mask, match_close

NAME = "codec_dec"
PROPS = ["C12", "C17"]
RLIMIT = 60
F = ["C12"]  # functional clauses (C17 view keeps only the representation invariant and safety)


def r1_for_to_loop(it, fn):
    """R1: `for P in &mut IT { B }`  ->  `loop { match IT.next() { None => { break; } Some(P) => { B } } }`
    (the Rust Reference's definition of `for` over an `Iterator`, with `&mut IT: IntoIterator` the identity)."""
    s = it.buf.text
    mask = code_mask(s)
    lo, _, hi = it.fn_span(fn)
    ms = [m for m in re.finditer(r"for\s+(\w+)\s+in\s+&mut\s+([\w\.]+)\s*\{", s) if lo <= m.start() < hi and mask[m.start()]]
    if len(ms) != 1:
        raise Lost(f"rule R1: expected 1 `for P in &mut IT` in fn {fn}, found {len(ms)}")
    m = ms[0]
    bo = m.end() - 1
    bc = match_close(s, mask, bo)
    l, _ = it.buf.pos(m.start())
    it.rules_applied.append({"rule": "R1", "file": it.relpath, "line": it._repo_line(l), "from": m.group(0), "to": f"loop {{ match {m.group(2)}.next() {{ None => {{ break; }} Some({m.group(1)}) => {{ .. }} }} }}"})
    # close first (offsets after bc unaffected by the head rewrite order if done back to front)
    it.buf.replace_span(bc, bc + 1, "}\n}\n}", ("rule", "R1"))
    it.buf.replace_span(m.start(), m.end(), f"loop\n{{\nmatch {m.group(2)}.next() {{\nNone => {{\nbreak;\n}}\nSome({m.group(1)}) => {{", ("rule", "R1"))
    return m.group(1)


GLUE = r"""
proof fn lemma_b64_table()
  ensures forall|c: u8| #[trigger] B64@[c as int] == tbl(c)
{
  assert(COM == 0x40u8 && SEM == 0x41u8 && ERR == 0x42u8) by (compute);
  assert forall|c: u8| #[trigger] B64@[c as int] == tbl(c) by { }
}

impl MappingsDecoder<'_> {
  #[verifier::prophetic]
  pub closed spec fn inv(&self) -> bool {
    &&& self.mappings_iter.obeys_prophetic_iter_laws()
    &&& self.mappings_iter.decrease() is Some
    &&& self.current_value_pos <= 68
    &&& self.generated_line as int + self.mappings_iter.remaining().len() <= u32::MAX
    &&& self.current_data_pos as int + self.mappings_iter.remaining().len() <= u32::MAX
  }
  pub closed spec fn ds(&self) -> DS {
    DS { d: self.current_data@, pos: self.current_data_pos as usize, val: self.current_value as i64, vpos: self.current_value_pos as usize, line: self.generated_line as u32 }
  }
  #[verifier::prophetic]
  pub closed spec fn rem(&self) -> Seq<u8> { self.mappings_iter.remaining().map_values(|x: &u8| *x) }
}
"""


# Client lemma: `MappingsDecoder::new(s).collect()` (what helpers::decode_mappings hands out, driven to exhaustion)
# written against the CONTRACTS of new/next: iterating next() until None yields dec_iter(ds0, bytes), which
# lemma_iter_is_all (codec_thm) equates with dec_all.  Not repository code; it shows the contracts compose and that
# the iteration terminates (each call consumes a byte or clears the pending segment).
CLIENT = r"""
fn client_decode_all(s: &str) -> (v: Vec<Mapping>)
  requires s.spec_bytes().len() < u32::MAX - 1
  ensures v@ =~= dec_iter(ds0(), s.spec_bytes())
{
  let mut d = MappingsDecoder::new(s);
  let mut v: Vec<Mapping> = Vec::new();
  let ghost sb = s.spec_bytes();
  let ghost mut consumed: nat = 0;
  proof { assert(Seq::<Mapping>::empty() + dec_iter(ds0(), sb) =~= dec_iter(ds0(), sb)); assert(sb.skip(0) =~= sb); }
  loop
    invariant_except_break d.inv(), consumed <= sb.len(), d.rem() == sb.skip(consumed as int),
      v@ + dec_iter(d.ds(), sb.skip(consumed as int)) == dec_iter(ds0(), sb),
    ensures v@ == dec_iter(ds0(), sb),
    decreases sb.len() - consumed, d.ds().pos
  {
    let ghost s0 = d.ds();
    let ghost b0 = sb.skip(consumed as int);
    let ghost k = dec_next(s0, b0).2;
    proof { lemma_next_bounds(s0, b0); }
    match d.next() {
      None => {
        proof { assert(dec_iter(s0, b0) =~= Seq::<Mapping>::empty()); assert(v@ + Seq::<Mapping>::empty() =~= v@); }
        break;
      }
      Some(m) => {
        let ghost v0 = v@;
        v.push(m);
        proof {
          let (e, s2, k2) = dec_next(s0, b0);
          assert(dec_iter(s0, b0) == seq![m] + dec_iter(s2, b0.skip(k as int)));
          assert(v0 + (seq![m] + dec_iter(s2, b0.skip(k as int))) =~= (v0 + seq![m]) + dec_iter(s2, b0.skip(k as int)));
          assert(v0.push(m) =~= v0 + seq![m]);
          assert(b0.skip(k as int) =~= sb.skip((consumed + k) as int));
          consumed = consumed + k;
        }
      }
    }
  }
  v
}
"""


def build(u):
    u.use("use std::slice::Iter;")
    u.use("use vstd::std_specs::iter::IteratorSpec;")
    u.use("use vstd::string::StringSliceAdditionalSpecFns;")
    u.item("src/source.rs", "pub struct Mapping {")
    u.item("src/source.rs", "pub struct OriginalLocation {")
    u.spec("codec_spec.rs")
    u.spec("codec_all_spec.rs")
    u.spec("codec_next_bounds.rs")
    u.spec("std_extra.rs")
    for c in ["const COM: u8", "const SEM: u8", "const ERR: u8", "const CONTINUATION_BIT: u8", "const DATA_MASK: u8", "const B64: [u8; 256]"]:
        u.item("src/decoder.rs", c)
    u.item("src/decoder.rs", "pub(crate) struct MappingsDecoder<'a>")
    new = u.item("src/decoder.rs", "impl<'a> MappingsDecoder<'a>")
    new.sig("new", [
        ("new.requires", "contract", "requires mappings.spec_bytes().len() < u32::MAX - 1"),
        ("new.inv", "contract", "ensures r.inv(),"),
        ("new.ensures", "contract", "  r.ds() == ds0(), r.rem() == mappings.spec_bytes(),", F),
    ], ret="r")
    u.raw(GLUE, ("glue", NAME))
    it = u.item("src/decoder.rs", "impl Iterator for MappingsDecoder<'_>")
    it.rule("D1", r"impl Iterator for MappingsDecoder<'_> \{\s*type Item = Mapping;", "impl MappingsDecoder<'_> {")
    it.rule("D1", r"Option<Self::Item>", "Option<Mapping>")
    cv = r1_for_to_loop(it, "next")  # name of the loop variable (hints refer to it)
    it.sig("next", [
        ("next.requires", "contract", "requires old(self).inv()"),
        ("next.inv", "contract", "ensures final(self).inv(),"),
        ("next.ensures", "contract",
         "  ({ let (e, s, k) = dec_next(old(self).ds(), old(self).rem());\n"
         "     r == e && final(self).ds() == s && k <= old(self).rem().len() && final(self).rem() == old(self).rem().skip(k as int) }),", F),
    ], ret="r")
    it.loop("next", 1, [
        ("next.loop1.inv", "contract", "invariant self.inv(),"),
        ("next.loop1.fn", "contract",
         "  self.rem().len() <= old(self).rem().len(),\n"
         "  self.rem() == old(self).rem().skip(old(self).rem().len() - self.rem().len()),\n"
         "  ({ let (e0, s0, k0) = dec_next(old(self).ds(), old(self).rem());\n"
         "     let (e, s, k) = dec_next(self.ds(), self.rem());\n"
         "     e0 == e && s0 == s && k0 == k + (old(self).rem().len() - self.rem().len()) }),", F),
        ("next.loop1.exit", "contract", "ensures self.rem().len() == 0", F),
        ("next.loop1.dec", "contract", "decreases self.mappings_iter.decrease()->0"),
    ])
    it.loop_body_start("next", 1, "next.ghost.pre", "ghost", "let ghost pre = *self;")
    it.at("next", "before", "break;", "next.hint.none", "hint",
          "proof { assert(self.rem() =~= pre.rem()); assert(pre.rem().len() == 0); }", optional=False, tags=F)
    it.at("next", "after", r"Some\(\w+\)\s*=>\s*\{", "next.hint.some", "hint",
          "proof {\n"
          "  assert(pre.rem() =~= seq![*" + cv + "] + self.rem());\n"
          "  assert(self.rem() =~= pre.rem().skip(1));\n"
          "  assert(pre.rem()[0] == *" + cv + ");\n"
          "  let n = old(self).rem().len() - pre.rem().len();\n"
          "  assert(self.rem() =~= old(self).rem().skip(n + 1));\n"
          "  assert(self.ds() == pre.ds());\n"
          "  lemma_b64_table();\n"
          "  assert(B64@[*" + cv + " as int] == tbl(*" + cv + "));\n"
          "}", nth=1, regex=True, tags=F)
    it.at("next", "before", r"let\s+final_value\s*=", "next.hint.shr", "hint",
          "proof { let x = self.current_value as i64; assert((x >> 1) > -0x4000_0000_0000_0001i64 && (x >> 1) < 0x4000_0000_0000_0000i64) by (bit_vector); }",
          regex=True)
    u.raw(CLIENT, ("glue", NAME + ":client"), tags=F)
    u.contracted += [
        ("MappingsDecoder::new", "src/decoder.rs"),
        ("MappingsDecoder::next", "src/decoder.rs"),
        ("const B64 (lemma_b64_table)", "src/decoder.rs"),
    ]
    # start-of-body / start-of-loop canaries (vacuity guards)
    new.body_start("new", "canary.new", "canary", "proof { assert(false); }")
    it.body_start("next", "canary.next", "canary", "proof { assert(false); }")
    it.loop_body_start("next", 1, "canary.next.loop1", "canary", "proof { assert(false); }")
