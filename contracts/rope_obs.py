"""U9 rope_obs: the observers of `Rope` (src/rope.rs) that unit rope_core leaves out - `is_empty`, `ends_with`,
`starts_with` (all four representation arms) - against the flat string the rope denotes (C16), with panic-freedom and
termination (C17).  Same view and invariant as rope_core (`bytes()`, `wf()`); `chars()` is the character view of the
same text (`lemma_chars`: `encode_utf8(chars()) == bytes()`).

Putting these three under contract is what exposed defects 7-10 (DESIGN 7): `ends_with` looked at the last piece even
when it is empty, the Light/Full arm of `starts_with` tested equality, the Full/Full arm sliced `str`s inside a
multi-byte character and rejected a prefix ending in an empty piece.
"""
import re

from vx.extract import Lost
from contracts.rope_core import GLUE_VIEW, IMPL, m1_last_map_or

NAME = "rope_obs"
PROPS = ["C16", "C17"]
RLIMIT = 200

GLUE_CHARS = r"""
impl<'a> Rope<'a> {
  /// the denoted text as characters
  pub closed spec fn chars(&self) -> Seq<char> {
    match self.repr { Repr::Light(s) => s@, Repr::Full(d) => chunks_chars(d@) }
  }
  /// the character view denotes the same flat string as the byte view
  proof fn lemma_chars(&self) ensures encode_utf8(self.chars()) == self.bytes()
  { match self.repr { Repr::Light(s) => { lemma_str_bytes(s); }, Repr::Full(d) => { lemma_chunks_chars(d@); } } }
}
"""

INV_FF = ("is_prefix(value.bytes(), self.bytes()) == is_prefix(remaining_other@ + chunks_bytes(rem_chunks(other_iter)), "
          "remaining_self@ + chunks_bytes(rem_chunks(self_iter)))")


def a1_iter_all(it, fn):
    """A1: `X.iter().all(|(s, _)| E)` -> `{ let mut all_r = true; for (s, _) in it: X.iter() { if !(E) { all_r = false; } } all_r }`
    (definition of Iterator::all for a predicate without side effects: the short-circuit cannot be observed; Verus has
    no iterator adapters and no closures with tuple patterns)"""
    return it.rule("A1", r"(\w+)\.iter\(\)\.all\(\|\((\w+), _\)\|\s*([^|]*?)\)(?=,?\s*\n)",
                   r"{ let mut all_r = true;\n        for (\2, _) in it: \1.iter()\n        {\n          if !(\3) { all_r = false; }\n        }\n        all_r }", fn=fn)


def f1_named(it, fn):
    """F1: `for (chunk, _) in data.iter() {` -> `for (chunk, _) in it: data.iter() {` (names the ghost iterator)"""
    return it.rule_opt("F1", r"for \(chunk, _\) in data\.iter\(\) \{", "for (chunk, _) in it: data.iter() {", fn=fn)


def build(u):
    u.header.insert(0, "#![feature(allocator_api, clone_to_uninit, pattern)]")
    for x in ["use vstd::string::StringSliceAdditionalSpecFns;", "use vstd::slice::SliceIndexSpec;", "use vstd::utf8::*;",
              "use vstd::std_specs::iter::IteratorSpec;",
              "use std::rc::Rc;", "use std::ops::{Bound, RangeBounds};", "use std::cmp::Ordering;", "use std::slice::SliceIndex;", "use std::borrow::Cow;"]:
        u.use(x)
    u.spec("rope_spec.rs")
    u.spec("rope_obs_spec.rs")
    u.raw("broadcast use {vstd::string::group_string_axioms, rope_ax::axiom_str_len_bound, rope_ax::axiom_u8_slice_eq, rope_ax::axiom_str_eq};", ("glue", NAME))
    r = u.item("src/rope.rs", "pub(crate) enum Repr<'a> {")
    r.rule("V1", r"pub\(crate\) enum Repr", "pub enum Repr")
    u.item("src/rope.rs", "pub struct Rope<'a> {")
    u.raw(GLUE_VIEW, ("glue", NAME))
    u.raw(GLUE_CHARS, ("glue", NAME))
    u.raw(IMPL, ("glue", NAME))

    # ---- is_empty ----
    ie = u.method("src/rope.rs", IMPL, "is_empty")
    a1_iter_all(ie, "is_empty")
    ie.sig("is_empty", [("Rope::is_empty.requires", "contract", "requires self.wf()"),
                        ("Rope::is_empty.ensures", "contract", "ensures r == (self.bytes().len() == 0)")], ret="r")
    ie.loop("is_empty", 1, [("Rope::is_empty.loop1.inv", "contract", "invariant all_r == (chunks_bytes(data@.take(it.index@ as int)).len() == 0),")])
    ie.loop_body_start("is_empty", 1, "Rope::is_empty.hint.step", "hint", "proof { lemma_chunks_take(data@, it.index@ as int); }")
    _, _, bc = ie.loop_span("is_empty", 1)
    ie.buf.insert_at(bc + 1, ["    proof { assert(data@.take(data@.len() as int) =~= data@); }"], ie._org("Rope::is_empty.hint.end", "hint", "is_empty", None))
    ie.at("is_empty", "before", r"for \(\w+, _\) in it:", "Rope::is_empty.hint.init", "hint",
          "proof { assert(data@.take(0) =~= Seq::<(&str, usize)>::empty()); }", regex=True, nth=1)
    ie.body_start("is_empty", "canary.Rope::is_empty", "canary", "proof { assert(false); }")
    ie.loop_body_start("is_empty", 1, "canary.Rope::is_empty.loop1", "canary", "proof { assert(false); }")

    # ---- ends_with ----
    ew = u.method("src/rope.rs", IMPL, "ends_with")
    ew.sig("ends_with", [("Rope::ends_with.requires", "contract", "requires self.wf()"),
                         ("Rope::ends_with.ensures", "contract", "ensures r == (self.chars().len() > 0 && self.chars().last() == value)")], ret="r")
    ew.body_start("ends_with", "Rope::ends_with.hint.ax", "hint", "broadcast use axiom_suffix_char;")
    if ew.count_loops("ends_with") >= 1:
        ew.loop("ends_with", 1, [("Rope::ends_with.loop1.inv", "contract",
                                  "invariant i <= data@.len(), self.chars() == chunks_chars(data@), chunks_chars(data@) == chunks_chars(data@.take(i as int)),"),
                                 ("Rope::ends_with.loop1.dec", "contract", "decreases i")])
        ew.at("ends_with", "before", r"while i > 0", "Rope::ends_with.hint.init", "hint", "proof { assert(data@.take(i as int) =~= data@); }", regex=True, nth=1)
        ew.at("ends_with", "after", r"let chunk = data\[i\]\.0;", "Rope::ends_with.hint.step", "hint",
              "proof { lemma_chunks_chars_take(data@, i as int); lemma_str_empty(chunk); axiom_suffix_char(chunk, value);\n"
              "  let a = chunks_chars(data@.take(i as int));\n"
              "  if chunk@.len() > 0 { assert((a + chunk@).last() == chunk@.last()); } else { assert(chunk@ =~= Seq::<char>::empty()); assert(a + chunk@ =~= a); } }", regex=True, nth=1)
        _, _, bc = ew.loop_span("ends_with", 1)
        ew.buf.insert_at(bc + 1, ["    proof { assert(data@.take(0) =~= Seq::<(&str, usize)>::empty()); }"], ew._org("Rope::ends_with.hint.end", "hint", "ends_with", None))
        ew.loop_body_start("ends_with", 1, "canary.Rope::ends_with.loop1", "canary", "proof { assert(false); }")
    ew.body_start("ends_with", "canary.Rope::ends_with", "canary", "proof { assert(false); }")

    # ---- starts_with ----
    FN = "starts_with"
    sw = u.method("src/rope.rs", IMPL, FN)
    f1_named(sw, FN)
    sw.sig(FN, [("Rope::starts_with.requires", "contract", "requires self.wf(), value.wf()"),
                ("Rope::starts_with.ensures", "contract", "ensures r == is_prefix(value.bytes(), self.bytes())")], ret="r")
    sw.body_start(FN, "Rope::starts_with.hint.ax", "hint", "broadcast use {axiom_prefix_str, axiom_prefix_ref_str, rope_ax::axiom_u8_slice_eq};")
    # Light / Full
    sw.loop(FN, 1, [("Rope::starts_with.loop1.inv", "contract",
                     "invariant is_prefix(value.bytes(), self.bytes()) == is_prefix(chunks_bytes(data@.skip(it.index@ as int)), remaining.spec_bytes()),")])
    sw.at(FN, "after", r"let mut remaining = \*s;", "Rope::starts_with.hint.init1", "hint", "proof { assert(data@.skip(0) =~= data@); }", regex=True, nth=1)
    sw.loop_body_start(FN, 1, "Rope::starts_with.hint.step1", "hint",
                       "proof { let i = it.index@ as int; assert(*chunk == data@[i].0); lemma_chunks_skip_step(data@, i); axiom_prefix_ref_str(remaining, chunk);\n"
                       "  lemma_prefix_first(chunk.spec_bytes(), chunks_bytes(data@.skip(i + 1)), remaining.spec_bytes());\n"
                       "  if is_prefix(chunk.spec_bytes(), remaining.spec_bytes()) {\n"
                       "    lemma_str_prefix_boundary(remaining, *chunk);\n"
                       "    lemma_prefix_strip(chunks_bytes(data@.skip(i)), remaining.spec_bytes(), chunk.spec_bytes().len() as int);\n"
                       "  }\n"
                       "}")
    _, _, bc = sw.loop_span(FN, 1)
    sw.buf.insert_at(bc + 1, ["    proof { assert(data@.skip(data@.len() as int) =~= Seq::<(&str, usize)>::empty()); assert(remaining.spec_bytes().subrange(0, 0) =~= Seq::<u8>::empty()); }"],
                     sw._org("Rope::starts_with.hint.end1", "hint", FN, None))
    # Full / Light
    sw.loop(FN, 2, [("Rope::starts_with.loop2.inv", "contract",
                     "invariant is_prefix(value.bytes(), self.bytes()) == is_prefix(remaining_other.spec_bytes(), chunks_bytes(data@.skip(it.index@ as int))),")])
    sw.at(FN, "after", r"let mut remaining_other = \*other;", "Rope::starts_with.hint.init2", "hint", "proof { assert(data@.skip(0) =~= data@); }", regex=True, nth=1)
    sw.loop_body_start(FN, 2, "Rope::starts_with.hint.step2", "hint",
                       "proof { let i = it.index@ as int; assert(*chunk == data@[i].0); lemma_chunks_skip_step(data@, i); axiom_prefix_ref_str(remaining_other, chunk); axiom_prefix_str(*chunk, remaining_other);\n"
                       "  let c = chunk.spec_bytes(); let rest = chunks_bytes(data@.skip(i + 1)); let ro = remaining_other.spec_bytes();\n"
                       "  lemma_prefix_either(ro, c, rest);\n"
                       "  if ro.len() == 0 { assert((c + rest).subrange(0, 0) =~= ro); }\n"
                       "  if is_prefix(c, ro) {\n"
                       "    lemma_str_prefix_boundary(remaining_other, *chunk);\n"
                       "    lemma_prefix_first(c, rest, ro);\n"
                       "    assert((c + rest).subrange(0, c.len() as int) =~= c);\n"
                       "    lemma_prefix_strip(ro, c + rest, c.len() as int);\n"
                       "  }\n"
                       "}")
    _, _, bc = sw.loop_span(FN, 2)
    sw.buf.insert_at(bc + 1, ["    proof { assert(data@.skip(data@.len() as int) =~= Seq::<(&str, usize)>::empty()); let e = chunks_bytes(Seq::<(&str, usize)>::empty()); assert(e =~= Seq::<u8>::empty());"
                              " assert(e.subrange(0, 0) =~= Seq::<u8>::empty()); if remaining_other.spec_bytes().len() == 0 { assert(remaining_other.spec_bytes() =~= Seq::<u8>::empty()); } }"],
                     sw._org("Rope::starts_with.hint.end2", "hint", FN, None))
    # Full / Full
    sw.loop(FN, 3, [("Rope::starts_with.loop3.iter", "contract",
                     "invariant self_iter.obeys_prophetic_iter_laws(), other_iter.obeys_prophetic_iter_laws(), self_iter.decrease() is Some, other_iter.decrease() is Some,"),
                    ("Rope::starts_with.loop3.inv", "contract", "invariant " + INV_FF + ","),
                    ("Rope::starts_with.loop3.dec", "contract", "decreases self_iter.decrease()->0 + other_iter.decrease()->0, remaining_self@.len() + remaining_other@.len(),")])
    sw.at(FN, "before", r"\bloop\b", "Rope::starts_with.hint.init3", "hint",
          "proof { assert(self_iter.remaining().map_values(|x: &(&str, usize)| *x) =~= data@); assert(other_iter.remaining().map_values(|x: &(&str, usize)| *x) =~= other_data@);\n"
          "  assert(Seq::<u8>::empty() + chunks_bytes(data@) =~= chunks_bytes(data@)); assert(Seq::<u8>::empty() + chunks_bytes(other_data@) =~= chunks_bytes(other_data@)); }", regex=True, nth=1)
    sw.loop_body_start(FN, 3, "Rope::starts_with.ghost.loop3", "ghost",
                       "let ghost ro0 = remaining_other@; let ghost rs0 = remaining_self@; let ghost oc0 = rem_chunks(other_iter); let ghost sc0 = rem_chunks(self_iter);")
    sw.at(FN, "after", r"remaining_other = other_chunk\.as_bytes\(\);", "Rope::starts_with.hint.fetch_o", "hint",
          "proof { lemma_chunks_first(oc0); assert(rem_chunks(other_iter) =~= oc0.skip(1)); assert(ro0 + chunks_bytes(oc0) =~= remaining_other@ + chunks_bytes(rem_chunks(other_iter))); }", regex=True, nth=1)
    sw.at(FN, "before", r"return true;", "Rope::starts_with.hint.done_o", "hint",
          "proof { assert(oc0 =~= Seq::<(&str, usize)>::empty()); assert((ro0 + chunks_bytes(oc0)) =~= Seq::<u8>::empty()); assert((rs0 + chunks_bytes(sc0)).subrange(0, 0) =~= Seq::<u8>::empty()); }", regex=True, nth=3)
    sw.at(FN, "after", r"remaining_self = self_chunk\.as_bytes\(\);", "Rope::starts_with.hint.fetch_s", "hint",
          "proof { lemma_chunks_first(sc0); assert(rem_chunks(self_iter) =~= sc0.skip(1)); assert(rs0 + chunks_bytes(sc0) =~= remaining_self@ + chunks_bytes(rem_chunks(self_iter))); }", regex=True, nth=1)
    sw.at(FN, "before", r"return false;", "Rope::starts_with.hint.done_s", "hint",
          "proof { assert(sc0 =~= Seq::<(&str, usize)>::empty()); assert((rs0 + chunks_bytes(sc0)) =~= Seq::<u8>::empty()); }", regex=True, nth=3)
    sw.at(FN, "after", r"let min_len = [^;]*;", "Rope::starts_with.hint.window", "hint",
          "proof {\n"
          "  let x = remaining_other@ + chunks_bytes(rem_chunks(other_iter)); let y = remaining_self@ + chunks_bytes(rem_chunks(self_iter)); let m = min_len as int;\n"
          "  assert(x.subrange(0, m) =~= remaining_other@.subrange(0, m)); assert(y.subrange(0, m) =~= remaining_self@.subrange(0, m));\n"
          "  if x.subrange(0, m) == y.subrange(0, m) { lemma_prefix_strip(x, y, m); } else { lemma_prefix_mismatch(x, y, m); }\n"
          "  assert(x.skip(m) =~= remaining_other@.subrange(m, remaining_other@.len() as int) + chunks_bytes(rem_chunks(other_iter)));\n"
          "  assert(y.skip(m) =~= remaining_self@.subrange(m, remaining_self@.len() as int) + chunks_bytes(rem_chunks(self_iter)));\n"
          "}", regex=True, nth=1)
    sw.at(FN, "before", r"remaining_self = &remaining_self\[min_len\.\.\];", "Rope::starts_with.ghost.cut", "ghost",
          "let ghost rs1 = remaining_self@; let ghost ro1 = remaining_other@;", regex=True, nth=1)
    sw.at(FN, "before", r"remaining_self = &remaining_self\[min_len\.\.\];", "Rope::starts_with.hint.cut0", "hint",
          "proof { assert(rs1.subrange(0, min_len as int) == ro1.subrange(0, min_len as int)); }", regex=True, nth=1)
    sw.at(FN, "after", r"remaining_other = &remaining_other\[min_len\.\.\];", "Rope::starts_with.hint.cut1", "hint",
          "proof { assert(remaining_self@ =~= rs1.subrange(min_len as int, rs1.len() as int)); assert(remaining_other@ =~= ro1.subrange(min_len as int, ro1.len() as int)); }", regex=True, nth=1)
    sw.body_start(FN, "canary.Rope::starts_with", "canary", "proof { assert(false); }")
    for k in (1, 2, 3):
        sw.loop_body_start(FN, k, f"canary.Rope::starts_with.loop{k}", "canary", "proof { assert(false); }")

    # ---- len (re-extracted: `==` calls it; same contract as in rope_core) ----
    ln = u.method("src/rope.rs", IMPL, "len")
    m1_last_map_or(ln, "len")
    ln.sig("len", [("Rope::len.requires", "contract", "requires self.wf()"),
                   ("Rope::len.ensures", "contract", "ensures n == self.bytes().len()")], ret="n")
    ln.body_start("len", "Rope::len.hint", "hint", "proof { self.lemma_last(); }")

    # ---- Rope == Rope ----
    EQ = "eq_rope"
    eq = u.method("src/rope.rs", "impl PartialEq<Rope<'_>> for Rope<'_> {", "eq")
    eq.rule("D1", r"fn eq\(", "fn eq_rope(")
    # P3: `let &(x, _) = &E[i];` -> `let x = E[i].0;` (Verus has no `&` patterns; both bind the first field of the element by copy)
    eq.rule("P3", r"let &\((\w+), _\) = &(\w+\[\w+\]);", r"let \1 = \2.0;", count=2, fn=EQ)
    eq.sig(EQ, [("Rope::eq_rope.requires", "contract", "requires self.wf(), other.wf()"),
                ("Rope::eq_rope.ensures", "contract", "ensures r == (self.bytes() == other.bytes())")], ret="r")
    eq.body_start(EQ, "Rope::eq_rope.ghost.texts", "ghost", "let ghost sb = self.bytes(); let ghost ob = other.bytes();")
    eq.at(EQ, "before", r"let total_bytes = self\.len\(\);", "Rope::eq_rope.ghost.pieces", "ghost", "let ghost cs = chunks@; let ghost ocs = other_chunks@;", regex=True, nth=1, optional=False)
    eq.at(EQ, "before", r"let total_bytes = self\.len\(\);", "Rope::eq_rope.hint.pieces", "hint",
          "proof { match &self.repr { Repr::Light(s0) => { lemma_single_chunk(*s0); assert(cs =~= seq![(*s0, 0usize)]); }, Repr::Full(d0) => { assert(cs =~= d0@); } }\n"
          "  match &other.repr { Repr::Light(s0) => { lemma_single_chunk(*s0); assert(ocs =~= seq![(*s0, 0usize)]); }, Repr::Full(d0) => { assert(ocs =~= d0@); } }\n"
          "  assert(chunks_wf(cs) && chunks_bytes(cs) == sb); assert(chunks_wf(ocs) && chunks_bytes(ocs) == ob);\n"
          "  assert(sb.subrange(0, 0) =~= ob.subrange(0, 0)); if cs.len() > 0 { lemma_chunk_at(cs, 0); } if ocs.len() > 0 { lemma_chunk_at(ocs, 0); } }", regex=True, nth=1)
    eq.loop(EQ, 1, [
        ("Rope::eq_rope.loop1.frame", "contract",
         "invariant chunks@ == cs, other_chunks@ == ocs, chunks_wf(cs), chunks_wf(ocs), chunks_bytes(cs) == sb, chunks_bytes(ocs) == ob, sb.len() == ob.len(), total_bytes == sb.len(),\n"
         "  sb == self.bytes(), ob == other.bytes(),"),
        ("Rope::eq_rope.loop1.cursor", "contract",
         "invariant byte_idx <= total_bytes, chunks_idx <= cs.len(), other_chunks_idx <= ocs.len(),\n"
         "  chunks_idx < cs.len() ==> byte_idx == cs[chunks_idx as int].1 + in_chunk_byte_idx && in_chunk_byte_idx <= clen(cs, chunks_idx as int),\n"
         "  chunks_idx == cs.len() ==> byte_idx == total_bytes && in_chunk_byte_idx == 0,\n"
         "  other_chunks_idx < ocs.len() ==> byte_idx == ocs[other_chunks_idx as int].1 + in_other_chunk_byte_idx && in_other_chunk_byte_idx <= clen(ocs, other_chunks_idx as int),\n"
         "  other_chunks_idx == ocs.len() ==> byte_idx == total_bytes && in_other_chunk_byte_idx == 0,"),
        ("Rope::eq_rope.loop1.inv", "contract", "invariant sb.subrange(0, byte_idx as int) == ob.subrange(0, byte_idx as int),"),
        ("Rope::eq_rope.loop1.exit", "contract",
         "ensures byte_idx == total_bytes, sb.subrange(0, byte_idx as int) == ob.subrange(0, byte_idx as int), sb.len() == ob.len(), total_bytes == sb.len(), sb == self.bytes(), ob == other.bytes(),"),
        ("Rope::eq_rope.loop1.dec", "contract", "decreases (cs.len() - chunks_idx) + (ocs.len() - other_chunks_idx),"),
    ])
    eq.at(EQ, "before", r"match chunk_remaining\.cmp\(", "Rope::eq_rope.hint.step", "hint",
          "proof {\n"
          "  let ci = chunks_idx as int; let oi = other_chunks_idx as int; let p = byte_idx as int;\n"
          "  let k = if chunk_remaining <= other_chunk_remaining { chunk_remaining as int } else { other_chunk_remaining as int };\n"
          "  lemma_chunk_at(cs, ci); lemma_chunk_at(ocs, oi);\n"
          "  lemma_window(cs, ci, in_chunk_byte_idx as int, k); lemma_window(ocs, oi, in_other_chunk_byte_idx as int, k);\n"
          "  lemma_eq_extend(sb, ob, p, k);\n"
          "  if ci + 1 < cs.len() { lemma_chunk_at(cs, ci + 1); } if oi + 1 < ocs.len() { lemma_chunk_at(ocs, oi + 1); }\n"
          "}", regex=True, nth=1)
    _, _, bc = eq.loop_span(EQ, 1)
    eq.buf.insert_at(bc + 1, ["    proof { assert(sb.subrange(0, sb.len() as int) =~= sb); assert(ob.subrange(0, ob.len() as int) =~= ob); }"], eq._org("Rope::eq_rope.hint.end", "hint", EQ, None))
    eq.body_start(EQ, "canary.Rope::eq_rope", "canary", "proof { assert(false); }")
    eq.loop_body_start(EQ, 1, "canary.Rope::eq_rope.loop1", "canary", "proof { assert(false); }")
    u.raw("}", ("glue", NAME))
    u.contracted += [("<Rope as PartialEq<Rope>>::eq", "src/rope.rs"), ("Rope::is_empty", "src/rope.rs"), ("Rope::ends_with", "src/rope.rs"), ("Rope::starts_with", "src/rope.rs")]
