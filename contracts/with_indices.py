"""U9 with_indices: `WithIndices::substring` (src/with_indices.rs) reaches `byte_slice_unchecked` only with an in-range,
ordered, char-boundary range - for EVERY text and every pair of indices, and for both instances of `SourceText`
(`&str`: `str::get_unchecked`; `Rope`: `Rope::byte_slice_unchecked`, whose contract with exactly this precondition unit
rope_core proves).  Replaces, as the deciding check, the bounded Kani stage K4 (five texts), which stays as a cross-check.

`SourceText` is reduced (D5) to `len`, `byte_slice_unchecked` and - rule W1 - `char_index_table`, which stands for the
initializer `self.line.char_indices().map(|(i, _)| i).collect::<Vec<_>>()` with std's contract for `char_indices`
(the byte offsets of the chars, in order: strictly increasing, each a char boundary below the length) as an ASSUMED
contract.  `OnceCell` enters through `cell_val` (an uninterpreted view) and the contracts of `new` / `get_or_init`.
"""
NAME = "with_indices"
PROPS = ["C19"]
RLIMIT = 60

GLUE = r"""
pub mod str_ax {
  use vstd::prelude::*;
  use vstd::string::StringSliceAdditionalSpecFns;
  /// a `str` is never longer than isize::MAX bytes (vstd's `str::len` is `spec_bytes().len() as usize`)
  pub broadcast axiom fn axiom_str_len_bound(s: &str)
    ensures #[trigger] s.spec_bytes().len() <= usize::MAX;
}
broadcast use {vstd::string::group_string_axioms, vstd::utf8::group_utf8_lib, str_ax::axiom_str_len_bound};
/// std: `char_indices` yields the byte offset of every char, in order
pub open spec fn table(b: Seq<u8>, t: Seq<usize>) -> bool {
  &&& forall|i: int, j: int| 0 <= i < j < t.len() ==> t[i] < t[j]
  &&& forall|i: int| 0 <= i < t.len() ==> (#[trigger] t[i]) < b.len() && is_char_boundary(b, t[i] as int)
}
#[verifier::external_type_specification]
#[verifier::external_body]
#[verifier::reject_recursive_types(T)]
pub struct ExOnceCell<T>(OnceCell<T>);
/// what the cell holds (interior mutability: `get_or_init` fills it through `&self`; the contracts below only say what the
/// returned reference points to)
pub uninterp spec fn cell_val<T>(c: &OnceCell<T>) -> Option<T>;
pub assume_specification<T>[OnceCell::<T>::new]() -> (r: OnceCell<T>)
  ensures cell_val(&r) is None;
pub assume_specification<T, F: FnOnce() -> T>[OnceCell::<T>::get_or_init](c: &OnceCell<T>, f: F) -> (r: &T)
  requires cell_val(c) is None ==> f.requires(()),
  ensures cell_val(c) is Some ==> *r == cell_val(c)->0, cell_val(c) is None ==> f.ensures((), *r);
/// the unchecked accessor of the &str instance: its documented safety precondition is the `requires`
pub assume_specification<I: SliceIndex<str>>[str::get_unchecked::<I>](s: &str, r: I) -> (out: &<I as SliceIndex<str>>::Output)
  requires r.in_bounds(s)
  ensures r.index_postcondition(s, out);

// D5: trait SourceText reduced to what substring uses; `chars()` is the spec view (the text is the UTF-8 encoding of a
// char sequence).  `byte_slice_unchecked`'s `requires` is its safety contract (C19).
pub trait SourceText<'a>: Sized + Default {
  spec fn chars(&self) -> Seq<char>;
  fn len(&self) -> (n: usize)
    ensures n == encode_utf8(self.chars()).len();
  unsafe fn byte_slice_unchecked(&self, range: Range<usize>) -> (r: Self)
    requires range.start <= range.end <= encode_utf8(self.chars()).len(),
      is_char_boundary(encode_utf8(self.chars()), range.start as int), is_char_boundary(encode_utf8(self.chars()), range.end as int)
    ensures encode_utf8(r.chars()) == encode_utf8(self.chars()).subrange(range.start as int, range.end as int);
  /// W1: stands for `self.char_indices().map(|(i, _)| i).collect::<Vec<_>>()`
  fn char_index_table(&self) -> (r: Vec<usize>)
    ensures table(encode_utf8(self.chars()), r@);
}
"""

GLUE_WF = r"""
impl<'a, S> WithIndices<'a, S>
where
  S: SourceText<'a>,
{
  /// the cache, when filled, is the char index table of `line` (what `substring` itself stores; the field is `pub`, so this
  /// is a precondition rather than a type invariant)
  pub closed spec fn wf(&self) -> bool {
    cell_val(&self.indices_indexes) is Some ==> table(encode_utf8(self.line.chars()), cell_val(&self.indices_indexes)->0@)
  }
}
"""

STR_IMPL_HEAD = r"""
// the &str instance: the two real methods, verified against the reduced trait's contracts
impl<'a> SourceText<'a> for &'a str {
  open spec fn chars(&self) -> Seq<char> { self@ }
  #[verifier::external_body]
  fn char_index_table(&self) -> (r: Vec<usize>) { unimplemented!() }
"""


def build(u):
    for x in ["use vstd::utf8::*;", "use vstd::string::StringSliceAdditionalSpecFns;", "use vstd::slice::SliceIndexSpec;", "use std::cell::OnceCell;",
              "use std::marker::PhantomData;", "use std::ops::Range;", "use std::slice::SliceIndex;"]:
        u.use(x)
    u.raw(GLUE, ("glue", NAME))
    u.item("src/with_indices.rs", "pub struct WithIndices<'a, S>")
    u.raw(GLUE_WF, ("glue", NAME))
    it = u.item("src/with_indices.rs", "impl<'a, S> WithIndices<'a, S>")
    it.rule("W1", r"\.get_or_init\(\|\|\s*\{\s*self\.line\.char_indices\(\)\.map\(\|\(i, _\)\| i\)\.collect::<Vec<_>>\(\)\s*\}\)",
            ".get_or_init(|| -> (r: Vec<usize>) ensures table(encode_utf8(self.line.chars()), r@) {\n      self.line.char_index_table()\n    })")
    it.sig("new", [("WithIndices::new.ensures", "contract", "ensures r.wf()")], ret="r")
    it.sig("substring", [("WithIndices::substring.requires", "contract", "requires self.wf()"),
                         ("WithIndices::substring.ensures", "contract", "ensures true")], ret="r")
    it.at("substring", "before", r"#\[allow\(unsafe_code\)\]\s*unsafe\s*\{", "WithIndices::substring.hint.len_boundary", "hint",
          "proof { encode_utf8_valid_utf8(self.line.chars()); is_char_boundary_start_end_of_seq(encode_utf8(self.line.chars())); }", regex=True, nth=1)
    it.body_start("new", "canary.WithIndices::new", "canary", "proof { assert(false); }")
    it.body_start("substring", "canary.WithIndices::substring", "canary", "proof { assert(false); }")
    u.raw(STR_IMPL_HEAD, ("glue", NAME))
    a = u.method("src/helpers.rs", "impl<'a> SourceText<'a> for &'a str {", "byte_slice_unchecked")
    b = u.method("src/helpers.rs", "impl<'a> SourceText<'a> for &'a str {", "len")
    a.body_start("byte_slice_unchecked", "canary.str::byte_slice_unchecked", "canary", "proof { assert(false); }")
    b.body_start("len", "canary.str::len", "canary", "proof { assert(false); }")
    u.raw("}", ("glue", NAME))
    u.contracted += [("WithIndices::new", "src/with_indices.rs"), ("WithIndices::substring", "src/with_indices.rs"),
                     ("<&str as SourceText>::byte_slice_unchecked", "src/helpers.rs"), ("<&str as SourceText>::len", "src/helpers.rs")]
