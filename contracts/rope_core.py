"""U8 rope_core: the representation of `Rope` (src/rope.rs) against the string it denotes (C16), the safety
preconditions of its unchecked accessors (C19), panic-freedom (C17), and - proved instead of assumed - the five method
contracts `ReplaceSource::rope` is verified against in unit replace_splice (C05).

View: `bytes()` = the concatenation of the pieces; invariant `wf()`: every piece of the multi-piece form records the
offset at which it starts, and the total length fits usize.  Every constructor establishes `wf`, every method keeps it.
"""
import re

from vx.extract import Lost, code_mask, match_close

NAME = "rope_core"
PROPS = ["C05", "C16", "C17", "C19"]
RLIMIT = 120

IMPL = "impl<'a> Rope<'a> {"

GLUE_VIEW = r"""
impl<'a> Rope<'a> {
  /// the text the rope denotes
  pub closed spec fn bytes(&self) -> Seq<u8> {
    match self.repr { Repr::Light(s) => s.spec_bytes(), Repr::Full(d) => chunks_bytes(d@) }
  }
  pub closed spec fn wf(&self) -> bool {
    match self.repr { Repr::Light(s) => true, Repr::Full(d) => chunks_wf(d@) && chunks_bytes(d@).len() <= usize::MAX }
  }
  pub closed spec fn data(&self) -> Seq<(&'a str, usize)> { match self.repr { Repr::Light(s) => Seq::empty(), Repr::Full(d) => d@ } }
  pub closed spec fn is_full(&self) -> bool { self.repr is Full }
  proof fn lemma_last(&self)
    requires self.wf()
    ensures self.is_full() && self.data().len() > 0 ==> self.bytes().len() == self.data().last().1 + self.data().last().0.spec_bytes().len(),
      self.is_full() && self.data().len() == 0 ==> self.bytes().len() == 0,
      self.bytes().len() <= usize::MAX,
  {
    let d = self.data();
    if self.is_full() && d.len() > 0 { assert(d.take(d.len() - 1) =~= d.drop_last()); }
  }
}
"""


def m1_last_map_or(it, fn):
    """M1: `X.last().map_or(D, |(a, b)| E)` -> `match X.last() { None => D, Some((a, b)) => E }` (definition of
    Option::map_or; Verus has no closures with tuple patterns)"""
    rx = r"(\w+)\s*\.last\(\)\s*\.map_or\(\s*0\s*,\s*\|\((\w+), (\w+)\)\|\s*([^;]*?)\)(?=[;,\n])"
    return it.rule_opt("M1", rx, r"match \1.last() { None => 0, Some((\2, \3)) => \4 }", fn=fn)


def m3_from_iter_array(it, fn):
    """M3: `Vec::from_iter([A, B])` -> `vec![A, B]` (same elements in the same order)"""
    return it.rule_opt("M3", r"Vec::from_iter\(\[(.*?)\]\);", r"vec![\1];", fn=fn)


def p2_for_ref_tuple(it, fn):
    """P2: `for &(x, _) in E {` -> `for p_item in it: E {` + `let x = p_item.0;` (Verus has no `&` patterns; also names
    the ghost iterator, rule F1)"""
    return it.rule_opt("P2", r"for &\((\w+), _\) in ([\w.]+\(\)) \{", r"for p_item in it: \2 {\n          let \1 = p_item.0;", fn=fn)


def d3_capacity(it, fn):
    """D3: capacity hints are allocation-only: `Vec::with_capacity(E)` -> `Vec::new()`"""
    return it.rule_opt("D3", r"Vec::with_capacity\((?:[^()]|\([^()]*\))*\)", "Vec::new()", fn=fn)


PUSH2 = ("proof {\n"
         "  let e = Seq::<(&str, usize)>::empty();\n"
         "  assert(chunks_wf(e));\n"
         "  lemma_chunks_push(e, (*s, 0usize));\n"
         "  lemma_chunks_push(e.push((*s, 0usize)), (%s, s.spec_bytes().len() as usize));\n"
         "  assert(%s@ =~= e.push((*s, 0usize)).push((%s, s.spec_bytes().len() as usize)));\n"
         "}")

LOOP_INV = ("invariant chunks_wf(%s@), chunks_bytes(%s@) == b0 + chunks_bytes(other@.take(it.index@ as int)), len == chunks_bytes(%s@).len(),\n"
            "  b0.len() + chunks_bytes(other@).len() <= usize::MAX,")


def build_ctor(u):
    n = u.method("src/rope.rs", IMPL, "new")
    n.sig("new", [("Rope::new.ensures", "contract", "ensures r.wf(), r.bytes() == Seq::<u8>::empty()")], ret="r")
    n.body_start("new", "Rope::new.hint", "hint", 'proof { reveal_strlit(""); assert("".spec_bytes() =~= Seq::<u8>::empty()); }')
    n.body_start("new", "canary.Rope::new", "canary", "proof { assert(false); }")

    ln = u.method("src/rope.rs", IMPL, "len")
    m1_last_map_or(ln, "len")
    ln.sig("len", [("Rope::len.requires", "contract", "requires self.wf()"),
                   ("Rope::len.ensures", "contract", "ensures n == self.bytes().len()")], ret="n")
    ln.body_start("len", "Rope::len.hint", "hint", "proof { self.lemma_last(); }")
    ln.body_start("len", "canary.Rope::len", "canary", "proof { assert(false); }")

    a = u.method("src/rope.rs", IMPL, "add")
    m1_last_map_or(a, "add")
    m3_from_iter_array(a, "add")
    a.sig("add", [("Rope::add.requires", "contract", "requires old(self).wf(), old(self).bytes().len() + value.spec_bytes().len() <= usize::MAX"),
                  ("Rope::add.ensures", "contract", "ensures final(self).wf(), final(self).bytes() == old(self).bytes() + value.spec_bytes()")])
    a.at("add", "after", r"let\s+vec\s*=\s*vec!\[[^;]*;", "Rope::add.hint.light", "hint", PUSH2 % ("value", "vec", "value"), regex=True, nth=1)
    a.at("add", "before", r"Rc::make_mut\(data\)\.push", "Rope::add.hint.full", "hint",
         "proof { old(self).lemma_last(); lemma_chunks_push(data@, (value, len)); }", regex=True, nth=1)
    a.body_start("add", "canary.Rope::add", "canary", "proof { assert(false); }")

    ap = u.method("src/rope.rs", IMPL, "append")
    m1_last_map_or(ap, "append")
    m3_from_iter_array(ap, "append")
    p2_for_ref_tuple(ap, "append")
    d3_capacity(ap, "append")
    ap.sig("append", [("Rope::append.requires", "contract", "requires old(self).wf(), value.wf(), old(self).bytes().len() + value.bytes().len() <= usize::MAX"),
                      ("Rope::append.ensures", "contract", "ensures final(self).wf(), final(self).bytes() == old(self).bytes() + value.bytes()")])
    ap.at("append", "after", r"let\s+raw\s*=\s*vec!\[[^;]*;", "Rope::append.hint.ll", "hint", PUSH2 % ("other", "raw", "other"), regex=True, nth=1)
    ap.at("append", "before", r"let\s+cur\s*=\s*Rc::make_mut\(s\);", "Rope::append.ghost.ff", "ghost", "let ghost b0 = old(self).bytes();", regex=True, nth=1, optional=False)
    ap.at("append", "before", r"let\s+cur\s*=\s*Rc::make_mut\(s\);", "Rope::append.hint.ff", "hint",
          "proof { old(self).lemma_last(); assert(other@.take(0) =~= Seq::<(&str, usize)>::empty()); }", regex=True, nth=1)
    ap.loop("append", 1, [("Rope::append.loop1.inv", "contract", LOOP_INV % ("cur", "cur", "cur"))])
    ap.loop_body_start("append", 1, "Rope::append.hint.loop1", "hint",
                       "proof { lemma_chunks_take(other@, it.index@ as int); lemma_chunks_push(cur@, (p_item.0, len)); }")
    ap.at("append", "before", r"Rc::make_mut\(s\)\.push\(\(other, len\)\);", "Rope::append.hint.fl", "hint",
          "proof { old(self).lemma_last(); lemma_chunks_push(s@, (other, len)); }", regex=True, nth=1)
    ap.at("append", "before", r"raw\.push\(\(\*s, 0\)\);", "Rope::append.ghost.lf", "ghost", "let ghost b0 = s.spec_bytes();", regex=True, nth=1, optional=False)
    ap.at("append", "before", r"raw\.push\(\(\*s, 0\)\);", "Rope::append.hint.lf", "hint",
          "proof { let e = Seq::<(&str, usize)>::empty(); assert(chunks_wf(e)); lemma_chunks_push(e, (*s, 0usize)); assert(other@.take(0) =~= e); }", regex=True, nth=1)
    ap.loop("append", 2, [("Rope::append.loop2.inv", "contract", LOOP_INV % ("raw", "raw", "raw"))])
    ap.loop_body_start("append", 2, "Rope::append.hint.loop2", "hint",
                       "proof { lemma_chunks_take(other@, it.index@ as int); lemma_chunks_push(raw@, (p_item.0, len)); }")
    # after each loop: take(len) is the whole list
    for k, anchor in ((1, r"\(Repr::Full\(s\), Repr::Light\(other\)\) =>"), (2, r"self\.repr = Repr::Full\(Rc::new\(raw\)\);")):
        _, _, bc = ap.loop_span("append", k)
        ap.buf.insert_at(bc + 1, ["    proof { assert(other@.take(other@.len() as int) =~= other@); }"], ap._org(f"Rope::append.hint.end{k}", "hint", "append", None))
    ap.body_start("append", "canary.Rope::append", "canary", "proof { assert(false); }")
    ap.loop_body_start("append", 1, "canary.Rope::append.loop1", "canary", "proof { assert(false); }")
    ap.loop_body_start("append", 2, "canary.Rope::append.loop2", "canary", "proof { assert(false); }")
    u.contracted += [("Rope::new", "src/rope.rs"), ("Rope::len", "src/rope.rs"), ("Rope::add", "src/rope.rs"), ("Rope::append", "src/rope.rs")]


def build(u):
    u.header.insert(0, "#![feature(allocator_api, clone_to_uninit)]")
    for x in ["use vstd::string::StringSliceAdditionalSpecFns;", "use vstd::slice::SliceIndexSpec;", "use vstd::utf8::*;",
              "use std::rc::Rc;", "use std::ops::{Bound, RangeBounds};", "use std::cmp::Ordering;", "use std::slice::SliceIndex;", "use std::borrow::Cow;"]:
        u.use(x)
    u.spec("rope_spec.rs")
    u.raw("broadcast use {vstd::string::group_string_axioms, rope_ax::axiom_str_len_bound};", ("glue", NAME))
    r = u.item("src/rope.rs", "pub(crate) enum Repr<'a> {")
    r.rule("V1", r"pub\(crate\) enum Repr", "pub enum Repr")
    u.item("src/rope.rs", "pub struct Rope<'a> {")
    u.raw(GLUE_VIEW, ("glue", NAME))
    u.raw(IMPL, ("glue", NAME))
    build_ctor(u)
    u.raw("}", ("glue", NAME))
