"""U8 rope_core: the representation of `Rope` (src/rope.rs) against the string it denotes (C16), the safety
preconditions of its unchecked accessors (C19), panic-freedom (C17), and - proved instead of assumed - the five method
contracts `ReplaceSource::rope` is verified against in unit replace_splice (C05).

View: `bytes()` = the concatenation of the pieces; invariant `wf()`: every piece of the multi-piece form records the
offset at which it starts, and the total length fits usize.  Every constructor establishes `wf`, every method keeps it.
"""
import re

from vx.extract import Lost, code_mask, match_close

NAME = "rope_core"
PROPS = ["C05", "C16", "C17", "C19"]
RLIMIT = 800

IMPL = "impl<'a> Rope<'a> {"

GLUE_VIEW = r"""
impl<'a> Rope<'a> {
  /// the text the rope denotes
  pub closed spec fn bytes(&self) -> Seq<u8> {
    match self.repr { Repr::Light(s) => s.spec_bytes(), Repr::Full(d) => chunks_bytes(d@) }
  }
  pub closed spec fn wf(&self) -> bool {
    match self.repr { Repr::Light(s) => true, Repr::Full(d) => chunks_wf(d@) && chunks_bytes(d@).len() <= usize::MAX }
  }
  pub closed spec fn data(&self) -> Seq<(&'a str, usize)> { match self.repr { Repr::Light(s) => Seq::empty(), Repr::Full(d) => d@ } }
  pub closed spec fn is_full(&self) -> bool { self.repr is Full }
  proof fn lemma_last(&self)
    requires self.wf()
    ensures self.is_full() && self.data().len() > 0 ==> self.bytes().len() == self.data().last().1 + self.data().last().0.spec_bytes().len(),
      self.is_full() && self.data().len() == 0 ==> self.bytes().len() == 0,
      self.bytes().len() <= usize::MAX,
  {
    let d = self.data();
    if self.is_full() && d.len() > 0 { lemma_chunk_at(d, d.len() - 1); }
  }
}
"""


def m1_last_map_or(it, fn):
    """M1: `X.last().map_or(D, |(a, b)| E)` -> `match X.last() { None => D, Some((a, b)) => E }` (definition of
    Option::map_or; Verus has no closures with tuple patterns)"""
    rx = r"(\w+)\s*\.last\(\)\s*\.map_or\(\s*0\s*,\s*\|\((\w+), (\w+)\)\|\s*([^;]*?)\)(?=[;,\n])"
    return it.rule_opt("M1", rx, r"match \1.last() { None => 0, Some((\2, \3)) => \4 }", fn=fn)


def m3_from_iter_array(it, fn):
    """M3: `Vec::from_iter([A, B])` -> `vec![A, B]` (same elements in the same order)"""
    return it.rule_opt("M3", r"Vec::from_iter\(\[(.*?)\]\);", r"vec![\1];", fn=fn)


def p2_for_ref_tuple(it, fn):
    """P2: `for &(x, _) in E {` -> `for p_item in it: E {` + `let x = p_item.0;` (Verus has no `&` patterns; also names
    the ghost iterator, rule F1)"""
    return it.rule_opt("P2", r"for &\((\w+), _\) in ([\w.]+\(\)) \{", r"for p_item in it: \2 {\n          let \1 = p_item.0;", fn=fn)


def d3_capacity(it, fn):
    """D3: capacity hints are allocation-only: `Vec::with_capacity(E)` -> `Vec::new()`"""
    return it.rule_opt("D3", r"Vec::with_capacity\((?:[^()]|\([^()]*\))*\)", "Vec::new()", fn=fn)


PUSH2 = ("proof {\n"
         "  let e = Seq::<(&str, usize)>::empty();\n"
         "  lemma_chunks_wf_empty();\n"
         "  lemma_chunks_push(e, (*s, 0usize));\n"
         "  lemma_chunks_push(e.push((*s, 0usize)), (%s, s.spec_bytes().len() as usize));\n"
         "  assert(%s@ =~= e.push((*s, 0usize)).push((%s, s.spec_bytes().len() as usize)));\n"
         "}")

LOOP_INV = ("invariant chunks_wf(%s@), chunks_bytes(%s@) == b0 + chunks_bytes(other@.take(it.index@ as int)), len == chunks_bytes(%s@).len(),\n"
            "  b0.len() + chunks_bytes(other@).len() <= usize::MAX,")


def build_ctor(u):
    n = u.method("src/rope.rs", IMPL, "new")
    n.sig("new", [("Rope::new.ensures", "contract", "ensures r.wf(), r.bytes() == Seq::<u8>::empty()")], ret="r")
    n.body_start("new", "Rope::new.hint", "hint", 'proof { reveal_strlit(""); assert("".spec_bytes() =~= Seq::<u8>::empty()); }')
    n.body_start("new", "canary.Rope::new", "canary", "proof { assert(false); }")

    ln = u.method("src/rope.rs", IMPL, "len")
    m1_last_map_or(ln, "len")
    ln.sig("len", [("Rope::len.requires", "contract", "requires self.wf()"),
                   ("Rope::len.ensures", "contract", "ensures n == self.bytes().len()")], ret="n")
    ln.body_start("len", "Rope::len.hint", "hint", "proof { self.lemma_last(); }")
    ln.body_start("len", "canary.Rope::len", "canary", "proof { assert(false); }")

    a = u.method("src/rope.rs", IMPL, "add")
    m1_last_map_or(a, "add")
    m3_from_iter_array(a, "add")
    a.sig("add", [("Rope::add.requires", "contract", "requires old(self).wf(), old(self).bytes().len() + value.spec_bytes().len() <= usize::MAX"),
                  ("Rope::add.ensures", "contract", "ensures final(self).wf(), final(self).bytes() == old(self).bytes() + value.spec_bytes()")])
    a.at("add", "after", r"let\s+vec\s*=\s*vec!\[[^;]*;", "Rope::add.hint.light", "hint", PUSH2 % ("value", "vec", "value"), regex=True, nth=1)
    a.at("add", "before", r"Rc::make_mut\(data\)\.push", "Rope::add.hint.full", "hint",
         "proof { old(self).lemma_last(); lemma_chunks_push(data@, (value, len)); }", regex=True, nth=1)
    a.body_start("add", "Rope::add.hint.len", "hint", "proof { old(self).lemma_last(); }")
    a.body_start("add", "canary.Rope::add", "canary", "proof { assert(false); }")

    ap = u.method("src/rope.rs", IMPL, "append")
    m1_last_map_or(ap, "append")
    m3_from_iter_array(ap, "append")
    p2_for_ref_tuple(ap, "append")
    d3_capacity(ap, "append")
    ap.sig("append", [("Rope::append.requires", "contract", "requires old(self).wf(), value.wf(), old(self).bytes().len() + value.bytes().len() <= usize::MAX"),
                      ("Rope::append.ensures", "contract", "ensures final(self).wf(), final(self).bytes() == old(self).bytes() + value.bytes()")])
    ap.at("append", "after", r"let\s+raw\s*=\s*vec!\[[^;]*;", "Rope::append.hint.ll", "hint", PUSH2 % ("other", "raw", "other"), regex=True, nth=1)
    ap.at("append", "before", r"let\s+cur\s*=\s*Rc::make_mut\(s\);", "Rope::append.ghost.ff", "ghost", "let ghost b0 = old(self).bytes();", regex=True, nth=1, optional=False)
    ap.at("append", "before", r"let\s+cur\s*=\s*Rc::make_mut\(s\);", "Rope::append.hint.ff", "hint",
          "proof { old(self).lemma_last(); assert(other@.take(0) =~= Seq::<(&str, usize)>::empty()); }", regex=True, nth=1)
    ap.loop("append", 1, [("Rope::append.loop1.inv", "contract", LOOP_INV % ("cur", "cur", "cur"))])
    ap.loop_body_start("append", 1, "Rope::append.hint.loop1", "hint",
                       "proof { lemma_chunks_take(other@, it.index@ as int); lemma_chunks_push(cur@, (p_item.0, len)); }")
    ap.at("append", "before", r"Rc::make_mut\(s\)\.push\(\(other, len\)\);", "Rope::append.hint.fl", "hint",
          "proof { old(self).lemma_last(); lemma_chunks_push(s@, (other, len)); }", regex=True, nth=1)
    ap.at("append", "before", r"raw\.push\(\(\*s, 0\)\);", "Rope::append.ghost.lf", "ghost", "let ghost b0 = s.spec_bytes();", regex=True, nth=1, optional=False)
    ap.at("append", "before", r"raw\.push\(\(\*s, 0\)\);", "Rope::append.hint.lf", "hint",
          "proof { let e = Seq::<(&str, usize)>::empty(); lemma_chunks_wf_empty(); lemma_chunks_push(e, (*s, 0usize)); assert(other@.take(0) =~= e); }", regex=True, nth=1)
    ap.loop("append", 2, [("Rope::append.loop2.inv", "contract", LOOP_INV % ("raw", "raw", "raw"))])
    ap.loop_body_start("append", 2, "Rope::append.hint.loop2", "hint",
                       "proof { lemma_chunks_take(other@, it.index@ as int); lemma_chunks_push(raw@, (p_item.0, len)); }")
    # after each loop: take(len) is the whole list
    for k, anchor in ((1, r"\(Repr::Full\(s\), Repr::Light\(other\)\) =>"), (2, r"self\.repr = Repr::Full\(Rc::new\(raw\)\);")):
        _, _, bc = ap.loop_span("append", k)
        ap.buf.insert_at(bc + 1, ["    proof { assert(other@.take(other@.len() as int) =~= other@); }"], ap._org(f"Rope::append.hint.end{k}", "hint", "append", None))
    ap.body_start("append", "Rope::append.hint.len", "hint", "proof { old(self).lemma_last(); }")
    ap.body_start("append", "canary.Rope::append", "canary", "proof { assert(false); }")
    ap.loop_body_start("append", 1, "canary.Rope::append.loop1", "canary", "proof { assert(false); }")
    ap.loop_body_start("append", 2, "canary.Rope::append.loop2", "canary", "proof { assert(false); }")
    u.contracted += [("Rope::new", "src/rope.rs"), ("Rope::len", "src/rope.rs"), ("Rope::add", "src/rope.rs"), ("Rope::append", "src/rope.rs")]


def c3_search_closure(it, fn, nth, spec):
    """C3: the n-th `.binary_search_by(|(a, b)| E)` of fn -> typed closure over `p_item: &(&str, usize)` that binds the
    tuple's fields by reference to the names the pattern used, with the contract given in the sidecar (Verus checks
    the closure body against it; Verus has no closures with tuple patterns)"""
    s = it.buf.text
    mask = code_mask(s)
    lo, _, hi = it.fn_span(fn)
    ms = [m for m in re.finditer(r"\.binary_search_by\(\s*\|\((\w+), (\w+)\)\|\s*", s) if lo <= m.start() < hi and mask[m.start()]]
    if len(ms) < nth:
        raise Lost(f"rule C3: binary_search_by closure {nth} not found in {fn}")
    m = ms[nth - 1]
    p = s.index("(", m.start())
    q = match_close(s, mask, p)
    body = s[m.end():q].strip()
    if body.startswith("{"):
        body = body[1:body.rindex("}")].strip()
    binds = "".join(f"let {name} = &p_item.{k}; " for k, name in enumerate((m.group(1), m.group(2))) if name != "_")
    new = f".binary_search_by(|p_item: &(&str, usize)| -> (o: Ordering)\n  {spec}\n  {{ {binds}{body} }})"
    l, _ = it.buf.pos(m.start())
    it.rules_applied.append({"rule": "C3", "file": it.relpath, "line": it._repo_line(l), "from": s[m.start():q + 1][:120], "to": "typed closure, tuple fields bound by reference, sidecar contract"})
    it.buf.replace_span(m.start(), q + 1, new, ("rule", "C3"))


def c4_simple_closure(it, fn):
    """C1/C4: `.unwrap_or_else(|x| E)` on the search result -> `|x: usize| -> (r: usize) ensures r == spec(E) { E }`
    (the spec is the closure's own body, `saturating_sub(1)` spelled out)"""
    def repl(m):
        e = m.group(2).strip()
        spec = re.sub(r"(\w+)\.saturating_sub\(1\)", r"(if \1 == 0 { 0usize } else { (\1 - 1) as usize })", e)
        return f".unwrap_or_else(|{m.group(1)}: usize| -> (r: usize) ensures r == {spec} {{ {e} }})"
    return it.rule_opt("C4", r"\.unwrap_or_else\(\|(\w+)\|\s*([^|{}]*?)\)(?=[;\n])", repl, fn=fn)


def build_get_byte(u):
    g = u.method("src/rope.rs", IMPL, "get_byte")
    c3_search_closure(g, "get_byte", 1, "ensures o == cmp3(p_item.1, byte_index)")
    c4_simple_closure(g, "get_byte")
    g.sig("get_byte", [("Rope::get_byte.requires", "contract", "requires self.wf()"),
                       ("Rope::get_byte.ensures", "contract",
                        "ensures r == (if byte_index < self.bytes().len() { Some(self.bytes()[byte_index as int]) } else { None::<u8> })")], ret="r")
    g.at("get_byte", "before", r"let\s+chunk_index\s*=", "Rope::get_byte.hint.sorted", "hint",
         "proof {\n"
         "  self.lemma_last();\n"
         "  assert forall|i: int, j: int| 0 <= i < j < data@.len() implies (#[trigger] data@[i]).1 <= (#[trigger] data@[j]).1 by { lemma_chunks_order(data@, i, j); }\n"
         "}", regex=True, nth=1)
    g.at("get_byte", "before", r"let\s+\(s,\s*start_pos\)\s*=", "Rope::get_byte.hint.found", "hint",
         "proof {\n"
         "  let d = data@; let c = chunk_index as int;\n"
         "  lemma_chunk_at(d, 0);\n"
         "  assert(0 <= c < d.len());\n"
         "  lemma_chunk_at(d, c);\n"
         "  assert(d[c].1 <= byte_index < d[c].1 + clen(d, c));\n"
         "  assert(chunks_bytes(d)[byte_index as int] == chunks_bytes(d).subrange(d[c].1 as int, d[c].1 + clen(d, c))[byte_index - d[c].1]);\n"
         "}", regex=True, nth=1)
    g.body_start("get_byte", "canary.Rope::get_byte", "canary", "proof { assert(false); }")
    # byte(): the panicking accessor - in its documented domain (index in bounds) the `expect` never fires
    b = u.method("src/rope.rs", IMPL, "byte")
    b.sig("byte", [("Rope::byte.requires", "contract", "requires self.wf(), byte_index < self.bytes().len()"),
                   ("Rope::byte.ensures", "contract", "ensures r == self.bytes()[byte_index as int]")], ret="r")
    b.body_start("byte", "canary.Rope::byte", "canary", "proof { assert(false); }")
    u.contracted += [("Rope::get_byte", "src/rope.rs"), ("Rope::byte", "src/rope.rs")]


def g2_universal_range(it, fn):
    """G2: instantiate the generic range parameter `R: RangeBounds<usize>` at `(Bound<usize>, Bound<usize>)`.  The body
    uses `range` only through `start_bound()` / `end_bound()`, and every pair of bounds any implementor can return is
    returned by some value of this type, so the instance is the most general one (std implements RangeBounds for it;
    vstd specifies that impl).  Only the signature changes."""
    it.rule("G2", r"fn " + fn + r"<R>\(", "fn " + fn + "(", fn=None)
    it.rule("G2", r"range: R,?", "range: (Bound<usize>, Bound<usize>),", fn=fn)
    it.rule("G2", r"\n\s*where\s*\n\s*R: RangeBounds<usize>,", "", fn=fn)


def r2t_try_for_each(it, fn):
    """R2t: `(A..B).try_for_each(|i| { BODY; Ok(()) })?;` -> `for i in A..B { BODY }`: a `return Err(e)` inside the closure
    makes try_for_each stop and `?` return that Err from the function, which is what `return Err(e)` does in the loop
    (same error type, `From` is the identity); reaching `Ok(())` continues with the next index."""
    s = it.buf.text
    mask = code_mask(s)
    lo, _, hi = it.fn_span(fn)
    ms = [m for m in re.finditer(r"\(([^()\n]+?)\.\.([^()\n]+?)\)\.try_for_each\(\|(\w+)\|\s*\{", s) if lo <= m.start() < hi and mask[m.start()]]
    if len(ms) != 1:
        raise Lost(f"rule R2t: expected 1 try_for_each in {fn}, found {len(ms)}")
    m = ms[0]
    bo = m.end() - 1
    bc = match_close(s, mask, bo)
    body = s[bo + 1:bc].rstrip()
    if not body.endswith("Ok(())"):
        raise Lost("rule R2t: closure does not end in Ok(())")
    body = body[:-len("Ok(())")].rstrip()
    tail = re.match(r"\)\?;", s[bc + 1:])
    if not tail:
        raise Lost("rule R2t: try_for_each result is not propagated with `?`")
    new = f"for {m.group(3)} in {m.group(1)}..{m.group(2)} {{{body}\n        }}"
    l, _ = it.buf.pos(m.start())
    it.rules_applied.append({"rule": "R2t", "file": it.relpath, "line": it._repo_line(l), "from": m.group(0), "to": f"for {m.group(3)} in {m.group(1)}..{m.group(2)} {{ .. }}"})
    it.buf.replace_span(m.start(), bc + 1 + tail.end(), new, ("rule", "R2t"))


def c5_len_closure(it, fn):
    """C5: `.unwrap_or_else(|| self.len())` -> the same closure with its type and the contract of `Rope::len`
    (`requires self.wf() ensures r == self.bytes().len()`; Verus checks the body against it)"""
    return it.rule("C5", r"\.unwrap_or_else\(\|\|\s*self\.len\(\)\)", ".unwrap_or_else(|| -> (r: usize) requires self.wf() ensures r == self.bytes().len() { self.len() })", fn=fn)


GLUE_FROM = r"""
// vstd specifies `From::from` through FromSpecImpl: the conversion from &str is the single-piece rope
impl<'a> vstd::std_specs::convert::FromSpecImpl<&'a str> for Rope<'a> {
  closed spec fn obeys_from_spec() -> bool { true }
  closed spec fn from_spec(v: &'a str) -> Self { Rope { repr: Repr::Light(v) } }
}
"""

POS = "(if i == sc { start_range as int } else if i <= ec { d[i as int].1 as int } else { end_range as int })"

SLICE_SPEC = r"""
/// the byte range a pair of bounds denotes (std's meaning of Included / Excluded / Unbounded; saturating at usize::MAX as
/// the two helpers do)
pub open spec fn lo_of(b: Bound<usize>) -> int { match b { Bound::Included(s) => s as int, Bound::Excluded(s) => if s == usize::MAX { s as int } else { s + 1 }, Bound::Unbounded => 0 } }
pub open spec fn hi_of(b: Bound<usize>, len: int) -> int { match b { Bound::Included(e) => if e == usize::MAX { e as int } else { e + 1 }, Bound::Excluded(e) => e as int, Bound::Unbounded => len } }
/// C16: "get_byte_slice returns None exactly for ranges that are reversed, out of bounds or not on char boundaries"
pub open spec fn range_ok(b: Seq<u8>, lo: int, hi: int) -> bool { 0 <= lo <= hi <= b.len() && is_cb(b, lo) && is_cb(b, hi) }
"""


GLUE_CLIENT = r"""
// client lemma (ours, not repository code): the call shape `rope.byte_slice(a..b)` of ReplaceSource::rope.  std's
// RangeBounds impl for Range<usize> returns (Included(&start), Excluded(&end)) - the universal instance with those bounds -
// so the contract unit replace_splice uses for `byte_slice(range: Range<usize>)` is this one.
fn client_byte_slice_range<'a>(r: &Rope<'a>, a: usize, b: usize) -> (o: Rope<'a>)
  requires r.wf(), a <= b <= r.bytes().len(), is_char_boundary(r.bytes(), a as int), is_char_boundary(r.bytes(), b as int)
  ensures o.wf(), o.bytes() == r.bytes().subrange(a as int, b as int)
{
  r.byte_slice((Bound::Included(a), Bound::Excluded(b)))
}
"""


def slice_proof(g, FN, unchecked):
    """the proof script shared by get_byte_slice_impl and byte_slice_unchecked (same algorithm; the unchecked variant
    replaces every `get` by `get_unchecked`, whose safety precondition the same facts discharge)"""
    RET_EMPTY = r"return\s+Rope::new\(\);" if unchecked else r"return\s+Ok\(Rope::new\(\)\);"
    RET_SAME = r"return\s+Rope::from\(unsafe\s*\{\s*chunk\.get_unchecked\(start\.\.end\)" if unchecked else r"return\s+chunk\s*\.get\(start\.\.end\)"
    FIRST = r"let\s+chunk\s*=\s*unsafe\s*\{\s*chunk\.get_unchecked\(start\.\.\)" if unchecked else r"if\s+let\s+Some\(chunk\)\s*=\s*chunk\.get\(start\.\.\)"
    LAST = r"let\s+chunk\s*=\s*unsafe\s*\{\s*chunk\.get_unchecked\(\.\.end\)" if unchecked else r"if\s+let\s+Some\(chunk\)\s*=\s*chunk\.get\(\.\.end\)"
    c5_len_closure(g, FN)
    T = "Rope::" + FN
    g.body_start(FN, T + ".ghost.b", "ghost", "let ghost b = self.bytes();")
    g.body_start(FN, T + ".hint.len", "hint", "proof { self.lemma_last(); }")
    g.at(FN, "before", r"match\s+&self\.repr\s*\{", T + ".hint.resolved", "hint",
         "proof {\n"
         "  assert(start_range <= end_range <= b.len());\n"
         "  assert(start_range == lo_of(range.0) && end_range == hi_of(range.1, b.len() as int));\n"
         "  if let Repr::Light(s) = self.repr { lemma_str_valid(s); is_char_boundary_start_end_of_seq(s.spec_bytes()); }\n"
         "}", regex=True, nth=1)
    g.at(FN, "before", RET_EMPTY, T + ".hint.nopiece", "hint",
         "proof { lemma_no_piece(data@); lemma_glue(b, 0, 0, 0); }", regex=True, nth=1)
    g.at(FN, "before", r"let\s+start_chunk_index\s*=", T + ".ghost.d", "ghost", "let ghost d = data@;", regex=True, nth=1, optional=False)
    g.at(FN, "before", r"let\s+start_chunk_index\s*=", T + ".hint.sorted", "hint",
         "proof { lemma_chunks_sorted(d); lemma_chunk_pos(d, 0); lemma_chunk_pos(d, d.len() - 1); }", regex=True, nth=1)
    g.at(FN, "before", r"if\s+start_chunk_index\s*==\s*end_chunk_index\s*\{", T + ".ghost.scec", "ghost",
         "let ghost sc = start_chunk_index as int;\nlet ghost ec = end_chunk_index as int;", regex=True, nth=1, optional=False)
    g.at(FN, "before", r"if\s+start_chunk_index\s*==\s*end_chunk_index\s*\{", T + ".hint.found", "hint",
         "proof {\n"
         "  assert(0 <= sc < d.len() && d[sc].1 <= start_range);\n"
         "  assert(sc + 1 < d.len() ==> start_range < d[sc + 1].1);\n"
         "  assert(0 <= ec < d.len() && end_range <= d[ec].1 + clen(d, ec));\n"
         "  assert(ec > 0 ==> d[ec - 1].1 + clen(d, ec - 1) <= end_range);\n"
         "  if sc + 1 < d.len() { lemma_chunk_pos(d, sc); }\n"
         "  if ec > 0 { lemma_chunk_pos(d, ec - 1); }\n"
         "  assert(start_range <= d[sc].1 + clen(d, sc));\n"
         "  assert(d[ec].1 <= end_range);\n"
         "}", regex=True, nth=1)
    g.at(FN, "before", RET_SAME, T + ".hint.same", "hint",
         "proof { lemma_in_piece(d, sc, start_range as int, end_range as int); }", regex=True, nth=1)
    g.at(FN, "before", RET_EMPTY, T + ".hint.empty", "hint",
         "proof { lemma_chunks_order(d, ec, sc); lemma_empty_range(d, sc); lemma_glue(b, start_range as int, start_range as int, start_range as int); }", regex=True, nth=2)
    g.at(FN, "before", r"for\s+i\s+in\s+start_chunk_index", T + ".hint.init", "hint",
         "proof { lemma_chunks_wf_empty(); assert(raw@ =~= Seq::<(&str, usize)>::empty()); lemma_glue(b, start_range as int, start_range as int, start_range as int); rope_ax::axiom_vec_len_bound(data); }",
         regex=True, nth=1)
    g.loop(FN, 1, [
        (T + ".loop1.frame", "contract",
         "invariant sc == start_chunk_index, ec == end_chunk_index, 0 <= sc < ec < d.len(), d == data@, chunks_wf(d), b == chunks_bytes(d), b.len() <= usize::MAX, b == self.bytes(),\n"
         "  d[sc].1 <= start_range <= d[sc].1 + clen(d, sc), d[ec].1 <= end_range <= d[ec].1 + clen(d, ec), start_range <= end_range <= b.len(),\n"
         "  start_range == lo_of(range.0) && end_range == hi_of(range.1, b.len() as int)," + (" is_cb(b, start_range as int), is_cb(b, end_range as int)," if unchecked else "")),
        (T + ".loop1.inv", "contract",
         "invariant chunks_wf(raw@), len == chunks_bytes(raw@).len(),\n"
         f"  chunks_bytes(raw@) == b.subrange(start_range as int, {POS}),\n"
         f"  start_range <= {POS} <= b.len(),\n"
         "  i > sc ==> is_cb(b, start_range as int),\n"
         "  i > ec ==> is_cb(b, end_range as int),"),
    ])
    g.loop_body_start(FN, 1, T + ".ghost.r0", "ghost", "let ghost r0 = raw@;")
    g.loop_body_start(FN, 1, T + ".hint.step", "hint",
                      "proof {\n"
                      "  lemma_chunk_pos(d, i as int);\n"
                      "  if i < ec { lemma_chunk_pos(d, i + 1); lemma_chunks_order(d, i as int, ec); }\n"
                      "  if i > sc { lemma_chunks_order(d, sc, i as int); }\n"
                      "}")
    g.at(FN, "before", FIRST, T + ".hint.first", "hint",
         "proof { lemma_in_piece(d, sc, start_range as int, d[sc].1 + clen(d, sc)); }", regex=True, nth=1)
    g.at(FN, "before", r"raw\.push\(\(chunk, len\)\);", T + ".hint.first.push", "hint",
         "proof { lemma_chunks_push(r0, (chunk, len)); lemma_glue(b, start_range as int, start_range as int, d[sc].1 + clen(d, sc)); }", regex=True, nth=1)
    g.at(FN, "before", LAST, T + ".hint.last", "hint",
         "proof { lemma_in_piece(d, ec, d[ec].1 as int, end_range as int); }", regex=True, nth=1)
    g.at(FN, "before", r"raw\.push\(\(chunk, len\)\);", T + ".hint.last.push", "hint",
         "proof { lemma_chunks_push(r0, (chunk, len)); lemma_glue(b, start_range as int, d[ec].1 as int, end_range as int); }", regex=True, nth=2)
    g.at(FN, "before", r"raw\.push\(\(chunk, len\)\);", T + ".hint.mid.push", "hint",
         "proof {\n"
         "  lemma_in_piece(d, i as int, d[i as int].1 as int, d[i as int].1 + clen(d, i as int)); lemma_chunks_push(r0, (*chunk, len));\n"
         "  lemma_glue(b, start_range as int, d[i as int].1 as int, d[i as int].1 + clen(d, i as int));\n"
         "  assert(chunk.spec_bytes().subrange(0, clen(d, i as int)) =~= chunk.spec_bytes());\n"
         "}", regex=True, nth=3)
    g.body_start(FN, "canary." + T, "canary", "proof { assert(false); }")
    g.loop_body_start(FN, 1, "canary." + T + ".loop1", "canary", "proof { assert(false); }")


def r2f_for_each(it, fn):
    """R2f: `(A..B).for_each(|i| { BODY });` -> `for i in A..B { BODY }` (definition of Iterator::for_each on a range;
    Verus has no closures capturing `&mut` locals)"""
    s = it.buf.text
    mask = code_mask(s)
    lo, _, hi = it.fn_span(fn)
    ms = [m for m in re.finditer(r"\(([^()\n]+?)\.\.([^()\n]+?)\)\.for_each\(\|(\w+)\|\s*\{", s) if lo <= m.start() < hi and mask[m.start()]]
    if len(ms) != 1:
        raise Lost(f"rule R2f: expected 1 for_each in {fn}, found {len(ms)}")
    m = ms[0]
    bo = m.end() - 1
    bc = match_close(s, mask, bo)
    body = s[bo + 1:bc].rstrip()
    if re.search(r"\breturn\b", "".join(c if k else " " for c, k in zip(body, mask[bo + 1:bo + 1 + len(body)]))):
        raise Lost("rule R2f: closure body contains `return`")
    tail = re.match(r"\);", s[bc + 1:])
    if not tail:
        raise Lost("rule R2f: for_each is not a statement")
    new = f"for {m.group(3)} in {m.group(1)}..{m.group(2)} {{{body}\n        }}"
    l, _ = it.buf.pos(m.start())
    it.rules_applied.append({"rule": "R2f", "file": it.relpath, "line": it._repo_line(l), "from": m.group(0), "to": f"for {m.group(3)} in {m.group(1)}..{m.group(2)} {{ .. }}"})
    it.buf.replace_span(m.start(), bc + 1 + tail.end(), new, ("rule", "R2f"))


def build_unchecked(u):
    """byte_slice_unchecked: the six unchecked accessors are reached only within their safety preconditions when the
    caller keeps the documented contract (range in bounds, start <= end, both on char boundaries) - C19"""
    FN = "byte_slice_unchecked"
    g = u.method("src/rope.rs", IMPL, FN)
    g2_universal_range(g, FN)
    c3_search_closure(g, FN, 1, "ensures o == cmp3(p_item.1, start_range)")
    c3_search_closure(g, FN, 1, "requires p_item.1 + p_item.0.spec_bytes().len() <= usize::MAX\n  ensures o == cmp3((p_item.1 + p_item.0.spec_bytes().len()) as usize, end_range)")
    c4_simple_closure(g, FN)
    r2f_for_each(g, FN)
    d3_capacity(g, FN)
    g.sig(FN, [
        ("Rope::byte_slice_unchecked.requires", "contract", "requires self.wf(), range_ok(self.bytes(), lo_of(range.0), hi_of(range.1, self.bytes().len() as int))"),
        ("Rope::byte_slice_unchecked.ensures", "contract", "ensures r.wf(), r.bytes() == self.bytes().subrange(lo_of(range.0), hi_of(range.1, self.bytes().len() as int))"),
    ], ret="r")
    slice_proof(g, FN, True)
    u.contracted += [("Rope::byte_slice_unchecked", "src/rope.rs")]


def build_wrappers(u):
    """byte_slice (panics on an invalid range - so its precondition is range_ok and the panic closure gets `requires false`)
    and get_byte_slice (None exactly for invalid ranges)"""
    bs = u.method("src/rope.rs", IMPL, "byte_slice")
    g2_universal_range(bs, "byte_slice")
    bs.rule("C6", r"\.unwrap_or_else\(\|e\|\s*\{", ".unwrap_or_else(|e: Error| -> (r: Rope<'a>) requires false {", fn="byte_slice")
    bs.sig("byte_slice", [
        ("Rope::byte_slice.requires", "contract", "requires self.wf(), range_ok(self.bytes(), lo_of(range.0), hi_of(range.1, self.bytes().len() as int))"),
        ("Rope::byte_slice.ensures", "contract", "ensures r.wf(), r.bytes() == self.bytes().subrange(lo_of(range.0), hi_of(range.1, self.bytes().len() as int))"),
    ], ret="r")
    bs.body_start("byte_slice", "canary.Rope::byte_slice", "canary", "proof { assert(false); }")
    gs = u.method("src/rope.rs", IMPL, "get_byte_slice")
    g2_universal_range(gs, "get_byte_slice")
    gs.sig("get_byte_slice", [
        ("Rope::get_byte_slice.requires", "contract", "requires self.wf()"),
        ("Rope::get_byte_slice.ensures", "contract",
         "ensures (match r {\n"
         "    Some(o) => o.wf() && range_ok(self.bytes(), lo_of(range.0), hi_of(range.1, self.bytes().len() as int))\n"
         "      && o.bytes() == self.bytes().subrange(lo_of(range.0), hi_of(range.1, self.bytes().len() as int)),\n"
         "    None => !range_ok(self.bytes(), lo_of(range.0), hi_of(range.1, self.bytes().len() as int)),\n"
         "  })"),
    ], ret="r")
    gs.body_start("get_byte_slice", "canary.Rope::get_byte_slice", "canary", "proof { assert(false); }")
    u.contracted += [("Rope::byte_slice", "src/rope.rs"), ("Rope::get_byte_slice", "src/rope.rs")]


def build_slice(u):
    a = u.item("src/rope.rs", "fn start_bound_to_range_start(")
    b = u.item("src/rope.rs", "fn end_bound_to_range_end(")
    from contracts.rope_bounds import p1_ref_patterns
    p1_ref_patterns(a)
    p1_ref_patterns(b)
    a.sig("start_bound_to_range_start", [("start_bound_to_range_start.ensures", "contract",
          "ensures (match start { Bound::Included(s) => r == Some(*s), Bound::Excluded(s) => r == Some(if *s == usize::MAX { *s } else { (*s + 1) as usize }), Bound::Unbounded => r is None })")], ret="r")
    b.sig("end_bound_to_range_end", [("end_bound_to_range_end.ensures", "contract",
          "ensures (match end { Bound::Included(e) => r == Some(if *e == usize::MAX { *e } else { (*e + 1) as usize }), Bound::Excluded(e) => r == Some(*e), Bound::Unbounded => r is None })")], ret="r")
    u.raw(SLICE_SPEC, ("glue", NAME))
    u.raw(IMPL, ("glue", NAME))
    g = u.method("src/rope.rs", IMPL, "get_byte_slice_impl")
    g2_universal_range(g, "get_byte_slice_impl")
    c3_search_closure(g, "get_byte_slice_impl", 1, "ensures o == cmp3(p_item.1, start_range)")
    c3_search_closure(g, "get_byte_slice_impl", 1, "requires p_item.1 + p_item.0.spec_bytes().len() <= usize::MAX\n  ensures o == cmp3((p_item.1 + p_item.0.spec_bytes().len()) as usize, end_range)")
    c4_simple_closure(g, "get_byte_slice_impl")
    r2t_try_for_each(g, "get_byte_slice_impl")
    d3_capacity(g, "get_byte_slice_impl")
    g.sig("get_byte_slice_impl", [
        ("Rope::get_byte_slice_impl.requires", "contract", "requires self.wf()"),
        ("Rope::get_byte_slice_impl.ensures", "contract",
         "ensures (match r {\n"
         "    Ok(o) => o.wf() && range_ok(self.bytes(), lo_of(range.0), hi_of(range.1, self.bytes().len() as int))\n"
         "      && o.bytes() == self.bytes().subrange(lo_of(range.0), hi_of(range.1, self.bytes().len() as int)),\n"
         "    Err(_) => !range_ok(self.bytes(), lo_of(range.0), hi_of(range.1, self.bytes().len() as int)),\n"
         "  })"),
    ], ret="r")
    slice_proof(g, "get_byte_slice_impl", False)
    build_wrappers(u)
    build_unchecked(u)
    u.raw("}", ("glue", NAME))
    u.raw(GLUE_CLIENT, ("glue", NAME + ":client"))
    u.contracted += [("Rope::get_byte_slice_impl", "src/rope.rs")]


def f1p_for_tuple(it, fn):
    """F1: `for (chunk, _) in data.iter() {` -> `for (chunk, _) in it: data.iter() {` (names the ghost iterator)"""
    return it.rule("F1", r"for \(chunk, _\) in data\.iter\(\) \{", "for (chunk, _) in it: data.iter() {", fn=fn)


def build_eq(u, impl_anchor, fn, o):
    """`rope == str` / `rope == &str`: the answer is exactly whether the denoted text equals the string; `o` names the str operand in spec position"""
    eq = u.method("src/rope.rs", impl_anchor, "eq")
    eq.rule("D1", r"fn eq\(", f"fn {fn}(")
    f1p_for_tuple(eq, fn)
    # N1: the local `other` (bytes) shadows the parameter `other` (str); alpha-renamed so that the loop invariant can name both
    eq.rule("N1", r"let other = other\.as_bytes\(\);.*", lambda m: "let other_b = other.as_bytes();" + re.sub(r"\bother\b", "other_b", m.group(0)[len("let other = other.as_bytes();"):]))
    eq.sig(fn, [(f"Rope::{fn}.requires", "contract", "requires self.wf()"),
                      # `==` on byte slices: axiom_u8_slice_eq (std's PartialEq for slices); the comparison never slices `other` out of range
                      (f"Rope::{fn}.ensures", "contract", f"ensures r == (self.bytes() == {o}.spec_bytes())")], ret="r")
    eq.body_start(fn, f"Rope::{fn}.ghost.o", "ghost", f"let ghost ob = {o}.spec_bytes();")
    eq.body_start(fn, f"Rope::{fn}.hint.len", "hint", "proof { self.lemma_last(); }")
    eq.loop(fn, 1, [(f"Rope::{fn}.loop1.inv", "contract",
                           f"invariant self.bytes() == chunks_bytes(data@), ob == {o}.spec_bytes(), chunks_wf(data@), other_b@ == ob, ob.len() == chunks_bytes(data@).len(), ob.len() <= usize::MAX, idx == chunks_bytes(data@.take(it.index@ as int)).len(), idx <= ob.len(),\n"
                           "  ob.subrange(0, idx as int) == chunks_bytes(data@.take(it.index@ as int)),")])
    eq.loop_body_start(fn, 1, f"Rope::{fn}.hint.step", "hint",
                       "proof {\n"
                       "  let i = it.index@ as int; let d = data@;\n"
                       "  lemma_chunks_take(d, i); lemma_chunks_prefix(d, i + 1); lemma_chunks_prefix(d, i);\n"
                       "  let p = chunks_bytes(d.take(i)); let q = chunks_bytes(d.take(i + 1));\n"
                       "  assert(ob.subrange(0, q.len() as int) =~= ob.subrange(0, p.len() as int) + ob.subrange(p.len() as int, q.len() as int));\n"
                       "  assert(q.subrange(p.len() as int, q.len() as int) =~= d[i].0.spec_bytes());\n"
                       "  if ob == chunks_bytes(d) {\n"
                       "    assert(ob.subrange(p.len() as int, q.len() as int) =~= ob.subrange(0, q.len() as int).subrange(p.len() as int, q.len() as int));\n"
                       "    assert(ob.subrange(p.len() as int, q.len() as int) == d[i].0.spec_bytes());\n"
                       "  }\n"
                       "}")
    eq.at(fn, "before", r"for \(chunk, _\) in it: data\.iter\(\)", f"Rope::{fn}.hint.init", "hint",
          "proof { assert(data@.take(0) =~= Seq::<(&str, usize)>::empty()); assert(ob.subrange(0, 0) =~= Seq::<u8>::empty()); }", regex=True, nth=1)
    _, _, bc = eq.loop_span(fn, 1)
    eq.buf.insert_at(bc + 1, ["    proof { assert(data@.take(data@.len() as int) =~= data@); assert(ob.subrange(0, ob.len() as int) =~= ob); }"], eq._org(f"Rope::{fn}.hint.end", "hint", fn, None))
    eq.body_start(fn, f"canary.Rope::{fn}", "canary", "proof { assert(false); }")
    eq.loop_body_start(fn, 1, f"canary.Rope::{fn}.loop1", "canary", "proof { assert(false); }")


def build_render(u):
    """to_bytes / to_string: the rope renders to exactly the text it denotes"""
    u.raw(IMPL, ("glue", NAME))
    tb = u.method("src/rope.rs", IMPL, "to_bytes")
    f1p_for_tuple(tb, "to_bytes")
    tb.sig("to_bytes", [("Rope::to_bytes.requires", "contract", "requires self.wf()"),
                        ("Rope::to_bytes.ensures", "contract", "ensures cow_bytes(&r) == self.bytes()")], ret="r")
    tb.loop("to_bytes", 1, [("Rope::to_bytes.loop1.inv", "contract", "invariant bytes@ == chunks_bytes(data@.take(it.index@ as int)),")])
    tb.loop_body_start("to_bytes", 1, "Rope::to_bytes.hint.step", "hint", "proof { lemma_chunks_take(data@, it.index@ as int); }")
    tb.at("to_bytes", "before", r"for \(chunk, _\) in it: data\.iter\(\)", "Rope::to_bytes.hint.init", "hint",
          "proof { assert(data@.take(0) =~= Seq::<(&str, usize)>::empty()); }", regex=True, nth=1)
    tb.at("to_bytes", "before", r"Cow::Owned\(bytes\)", "Rope::to_bytes.hint.end", "hint",
          "proof { assert(data@.take(data@.len() as int) =~= data@); }", regex=True, nth=1)
    tb.body_start("to_bytes", "canary.Rope::to_bytes", "canary", "proof { assert(false); }")
    tb.loop_body_start("to_bytes", 1, "canary.Rope::to_bytes.loop1", "canary", "proof { assert(false); }")
    ts = u.method("src/rope.rs", "impl ToString for Rope<'_> {", "to_string")
    f1p_for_tuple(ts, "to_string")
    ts.rule("D3", r"String::with_capacity\(self\.len\(\)\)", "String::new()", fn="to_string")
    ts.sig("to_string", [("Rope::to_string.requires", "contract", "requires self.wf()"),
                         ("Rope::to_string.ensures", "contract", "ensures encode_utf8(r@) == self.bytes()")], ret="r")
    ts.loop("to_string", 1, [("Rope::to_string.loop1.inv", "contract", "invariant encode_utf8(s@) == chunks_bytes(data@.take(it.index@ as int)),")])
    ts.loop_body_start("to_string", 1, "Rope::to_string.hint.step", "hint",
                       "proof { lemma_chunks_take(data@, it.index@ as int); encode_utf8_concat(s@, chunk@); lemma_str_bytes(*chunk); }")
    ts.at("to_string", "before", r"for \(chunk, _\) in it: data\.iter\(\)", "Rope::to_string.hint.init", "hint",
          "proof { assert(data@.take(0) =~= Seq::<(&str, usize)>::empty()); lemma_empty_string(s@); }", regex=True, nth=1)
    _, _, bc = ts.loop_span("to_string", 1)
    ts.buf.insert_at(bc + 1, ["    proof { assert(data@.take(data@.len() as int) =~= data@); }"], ts._org("Rope::to_string.hint.end", "hint", "to_string", None))
    ts.body_start("to_string", "Rope::to_string.hint.light", "hint", "broadcast use rope_ax::axiom_to_string_ref_str;\nproof { if let Repr::Light(s0) = self.repr { lemma_str_bytes(s0); } }")
    ts.body_start("to_string", "canary.Rope::to_string", "canary", "proof { assert(false); }")
    ts.loop_body_start("to_string", 1, "canary.Rope::to_string.loop1", "canary", "proof { assert(false); }")
    build_eq(u, "impl PartialEq<str> for Rope<'_> {", "eq_str", "other")
    build_eq(u, "impl PartialEq<&str> for Rope<'_> {", "eq_ref_str", "(*other)")
    u.raw("}", ("glue", NAME))
    u.contracted += [("Rope::to_bytes", "src/rope.rs"), ("Rope::to_string", "src/rope.rs"), ("<Rope as PartialEq<str>>::eq", "src/rope.rs"), ("<Rope as PartialEq<&str>>::eq", "src/rope.rs")]


def build(u):
    u.header.insert(0, "#![feature(allocator_api, clone_to_uninit)]")
    for x in ["use vstd::string::StringSliceAdditionalSpecFns;", "use vstd::slice::SliceIndexSpec;", "use vstd::utf8::*;",
              "use std::rc::Rc;", "use std::ops::{Bound, RangeBounds};", "use std::cmp::Ordering;", "use std::slice::SliceIndex;", "use std::borrow::Cow;"]:
        u.use(x)
    u.spec("rope_spec.rs")
    u.raw("broadcast use {vstd::string::group_string_axioms, rope_ax::axiom_str_len_bound, rope_ax::axiom_u8_slice_eq};", ("glue", NAME))
    r = u.item("src/rope.rs", "pub(crate) enum Repr<'a> {")
    r.rule("V1", r"pub\(crate\) enum Repr", "pub enum Repr")
    u.item("src/rope.rs", "pub struct Rope<'a> {")
    u.raw(GLUE_VIEW, ("glue", NAME))
    u.raw(IMPL, ("glue", NAME))
    build_ctor(u)
    build_get_byte(u)
    u.raw("}", ("glue", NAME))
    e = u.item("src/error.rs", "pub enum Error {")
    e.rule("D8", r"\n\s*/// a JSON parsing related failure\n\s*BadJson\(simd_json::Error\),", "")
    u.raw("// Display for Error is only used by the panic message of byte_slice (unreachable under its contract)\n#[verifier::external]\nimpl std::fmt::Display for Error { fn fmt(&self, f: &mut std::fmt::Formatter<'_>) -> std::fmt::Result { Ok(()) } }", ("glue", NAME))
    u.raw(GLUE_FROM, ("glue", NAME))
    f = u.item("src/rope.rs", "impl<'a> From<&'a str> for Rope<'a> {")
    build_slice(u)
    build_render(u)
