"""U4 replace_splice: ReplaceSource::source against the reference replacement model (C05 b), and its
slice/arith safety (C17).  `sorted_replacement` enters with the contract that the Kani stage K1 checks
on the real method (result = replacements in stable (start, end, enforce) order).
"""
import re

from vx.extract import Lost, code_mask, match_close

NAME = "replace_splice"
PROPS = ["C05", "C17"]
RLIMIT = 400
F = ["C05"]

GLUE_TRAIT = r"""
// D5: trait Source reduced to the one method this unit calls (its other methods and supertraits are dropped);
// `text()` is the spec view of source(): the inner source's text is a function of the inner object.
pub trait Source {
  spec fn text(&self) -> Seq<u8>;
  fn source(&self) -> (r: Cow<str>)
    ensures cow_target(&r).spec_bytes() == self.text();
  fn rope(&self) -> (r: Rope<'_>)
    ensures r.wf(), r.bytes() == self.text();
}
"""

GLUE_ROPE = r"""
// D6: `Rope` enters as an opaque external type with the contracts of the five methods ReplaceSource::rope calls.  These
// are, clause for clause, the contracts unit rope_core PROVES on the real src/rope.rs (`wf` = its representation
// invariant; `byte_slice(a..b)` = its client lemma for the Range<usize> call shape); they are restated here only because
// the two units are verified in separate files.
#[verifier::external_body]
pub struct Rope<'a> { _p: std::marker::PhantomData<&'a str> }
impl<'a> Rope<'a> {
  /// a rope denotes a string: its bytes are the UTF-8 encoding of a char sequence
  pub uninterp spec fn chars(&self) -> Seq<char>;
  pub open spec fn bytes(&self) -> Seq<u8> { encode_utf8(self.chars()) }
  /// rope_core's representation invariant (opaque here)
  pub uninterp spec fn wf(&self) -> bool;
  #[verifier::external_body]
  pub fn new() -> (r: Self) ensures r.wf(), r.bytes() == Seq::<u8>::empty() { unimplemented!() }
  #[verifier::external_body]
  pub fn len(&self) -> (n: usize) requires self.wf() ensures n == self.bytes().len() { unimplemented!() }
  /// panics (C16: "get_byte_slice returns None exactly for ranges that are reversed, out of bounds or not on char boundaries")
  #[verifier::external_body]
  pub fn byte_slice(&self, range: std::ops::Range<usize>) -> (r: Rope<'a>)
    requires self.wf(), range.start <= range.end <= self.bytes().len(), is_char_boundary(self.bytes(), range.start as int), is_char_boundary(self.bytes(), range.end as int)
    ensures r.wf(), r.bytes() == self.bytes().subrange(range.start as int, range.end as int)
  { unimplemented!() }
  #[verifier::external_body]
  pub fn append(&mut self, value: Rope<'a>)
    requires old(self).wf(), value.wf(), old(self).bytes().len() + value.bytes().len() <= usize::MAX
    ensures final(self).wf(), final(self).bytes() == old(self).bytes() + value.bytes() { unimplemented!() }
  #[verifier::external_body]
  pub fn add(&mut self, value: &'a str)
    requires old(self).wf(), old(self).bytes().len() + value.spec_bytes().len() <= usize::MAX
    ensures final(self).wf(), final(self).bytes() == old(self).bytes() + value.spec_bytes() { unimplemented!() }
}
"""

GLUE_SPEC = r"""
spec fn enf_ord(e: ReplacementEnforce) -> int { match e { ReplacementEnforce::Pre => 0, ReplacementEnforce::Normal => 1, ReplacementEnforce::Post => 2 } }
spec fn key_lt(a: Replacement, b: Replacement) -> bool {
  a.start < b.start || (a.start == b.start && (a.end < b.end || (a.end == b.end && enf_ord(a.enforce) < enf_ord(b.enforce))))
}
spec fn key_eq(a: Replacement, b: Replacement) -> bool { a.start == b.start && a.end == b.end && a.enforce == b.enforce }
/// idx is the permutation that sorts rs by (start, end, enforce), ties in insertion order
spec fn stable_sorted_idx(rs: Seq<Replacement>, idx: Seq<int>) -> bool {
  &&& idx.len() == rs.len()
  &&& forall|i: int| 0 <= i < idx.len() ==> 0 <= #[trigger] idx[i] < rs.len()
  &&& forall|i: int, j: int| 0 <= i < j < idx.len() ==> idx[i] != idx[j]
  &&& forall|i: int, j: int| 0 <= i < j < idx.len() ==> key_lt(rs[idx[i]], rs[idx[j]]) || (key_eq(rs[idx[i]], rs[idx[j]]) && idx[i] < idx[j])
}
spec fn picks(rs: Seq<Replacement>, idx: Seq<int>) -> Seq<Replacement> { Seq::new(idx.len(), |i: int| rs[idx[i]]) }
spec fn rview(r: Replacement) -> RS { RS { start: r.start, end: r.end, content: encode_utf8(r.content@) } }
spec fn rviews(v: Seq<Replacement>) -> Seq<RS> { v.map_values(|r: Replacement| rview(r)) }
spec fn derefs(v: Seq<&Replacement>) -> Seq<Replacement> { v.map_values(|r: &Replacement| *r) }

impl<T: Source> ReplaceSource<T> {
  /// K1 (Kani, on the real method): the result is `replacements` in stable key order.
  #[verifier::external_body]
  fn sorted_replacement(&self) -> (v: Vec<&Replacement>)
    ensures exists|idx: Seq<int>| stable_sorted_idx(self.replacements@, idx) && derefs(v@) == picks(self.replacements@, idx)
  { unimplemented!() }

  /// domain of the property: start <= end, positions on char boundaries of the inner text or beyond its end; text < 4 GiB
  spec fn dom_ok(&self) -> bool {
    let ib = self.inner.text();
    ib.len() < 0x1_0000_0000 && forall|i: int| 0 <= i < self.replacements@.len() ==>
      (#[trigger] self.replacements@[i]).start <= self.replacements@[i].end && pos_ok(ib, self.replacements@[i].start) && pos_ok(ib, self.replacements@[i].end)
  }
}
"""


GLUE_VIEWS = r"""
// public mirror of a replacement (the struct is private) and of the call history held by a ReplaceSource
// (the `name` given with a replacement does not influence the text - it belongs to C06 - and is left out on purpose)
pub struct RV { pub start: u32, pub end: u32, pub content: Seq<char>, pub enforce: ReplacementEnforce }
impl Replacement {
  pub closed spec fn rv(&self) -> RV { RV { start: self.start, end: self.end, content: self.content@, enforce: self.enforce } }
}
impl<T> ReplaceSource<T> {
  /// the sequence of mutating calls made so far, in call order
  pub closed spec fn rvs(&self) -> Seq<RV> { self.replacements@.map_values(|r: Replacement| r.rv()) }
  pub closed spec fn inner_id(&self) -> Arc<T> { self.inner }
}
pub assume_specification<T>[std::sync::Mutex::<T>::new](_0: T) -> std::sync::Mutex<T>;
pub assume_specification<'a>[<String as From<&'a str>>::from](s: &str) -> (r: String)
  ensures r@ == s@;
"""


def c2_into_closure(it, fn):
    """C2: `name.map(|s| s.into())` -> `name.map(|s: &str| -> (r: String) ensures r@ == s@ { s.into() })`
    (Verus needs a closure's type and spec written out; the ensures is the contract of `<String as From<&str>>::from`)"""
    return it.rule_opt("C2", r"\.map\(\|(\w+)\|\s*\1\.into\(\)\)", r".map(|\1: &str| -> (r: String) ensures r@ == \1@ { \1.into() })", fn=fn)


def build_mutators(u):
    """ReplaceSource::new / original / replace / replace_with_enforce / insert / insert_with_enforce and Replacement::new:
    every mutator appends exactly the call it was given to the history and leaves the inner source alone - for all
    history lengths (the Kani stage K1 adds the lazy-sort flag, which Verus cannot see through AtomicBool)."""
    M = ["C05"]
    rn = u.item("src/replace_source.rs", "impl Replacement {")
    rn.sig("new", [("Replacement::new.ensures", "contract",
                    "ensures r.rv() == (RV { start, end, content: content@, enforce })", M)], ret="r")
    a = u.item("src/replace_source.rs", "impl<T> ReplaceSource<T> {")
    # the private sort helpers live in the same impl block: they stay outside Verus (Mutex/itertools); K1 checks them
    a.rule("D7", r"\n  fn sort_replacement\(&self\) \{.*?\n  \}\n", "\n", count=1)
    a.rule("D7", r"\n  fn sorted_replacement\(&self\) -> Vec<&Replacement> \{.*?\n  \}\n", "\n", count=1)
    a.sig("new", [("ReplaceSource::new.ensures", "contract", "ensures r.rvs() =~= Seq::<RV>::empty(), *r.inner_id() == source", M)], ret="r")
    a.sig("original", [("ReplaceSource::original.ensures", "contract", "ensures *r == *self.inner_id()", M)], ret="r")
    b = u.item("src/replace_source.rs", "impl<T: Source> ReplaceSource<T> {")
    for fn in ("replace", "replace_with_enforce"):
        c2_into_closure(b, fn)
    APP = "ensures final(self).rvs() =~= old(self).rvs().push(RV {{ start, end: {end}, content: content@, enforce: {enf} }}),\n  final(self).inner_id() == old(self).inner_id()"
    b.sig("insert", [("insert.appends", "contract", APP.format(end="start", enf="ReplacementEnforce::Normal"), M)])
    b.sig("insert_with_enforce", [("insert_with_enforce.appends", "contract", APP.format(end="start", enf="enforce"), M)])
    b.sig("replace", [("replace.appends", "contract", APP.format(end="end", enf="ReplacementEnforce::Normal"), M)])
    b.sig("replace_with_enforce", [("replace_with_enforce.appends", "contract", APP.format(end="end", enf="enforce"), M)])
    for it, fns in ((rn, ["new"]), (a, ["new", "original"]), (b, ["insert", "insert_with_enforce", "replace", "replace_with_enforce"])):
        for fn in fns:
            it.body_start(fn, f"canary.{it.anchor.split('{')[0].strip()}::{fn}", "canary", "proof { assert(false); }")
    u.contracted += [("Replacement::new", "src/replace_source.rs"), ("ReplaceSource::new", "src/replace_source.rs"), ("ReplaceSource::original", "src/replace_source.rs"),
                     ("ReplaceSource::insert", "src/replace_source.rs"), ("ReplaceSource::insert_with_enforce", "src/replace_source.rs"),
                     ("ReplaceSource::replace", "src/replace_source.rs"), ("ReplaceSource::replace_with_enforce", "src/replace_source.rs")]


def f1_name_for_iter(it, fn):
    """F1: `for P in E {` -> `for P in it: E {` (names Verus's ghost iterator; no executable change)"""
    s = it.buf.text
    mask = code_mask(s)
    lo, _, hi = it.fn_span(fn)
    ms = [m for m in re.finditer(r"\bfor\s+(\w+)\s+in\s+([^\{]+?)\s*\{", s) if lo <= m.start() < hi and mask[m.start()]]
    if len(ms) != 1:
        raise Lost(f"rule F1: expected 1 for-loop in {fn}, found {len(ms)}")
    m = ms[0]
    l, _ = it.buf.pos(m.start())
    it.rules_applied.append({"rule": "F1", "file": it.relpath, "line": it._repo_line(l), "from": m.group(0), "to": f"for {m.group(1)} in it: {m.group(2)} {{"})
    it.buf.replace_span(m.start(), m.end(), f"for {m.group(1)} in it: {m.group(2)} {{", ("rule", "F1"))


def l1_let_bind(it, fn):
    """L1: `X.push_str(&E[a..b]);` -> `let pieceN = &E[a..b]; X.push_str(pieceN);` (let-introduction of an
    argument expression, so that a proof hint can name the slice)"""
    n = 0
    while True:
        s = it.buf.text
        mask = code_mask(s)
        lo, _, hi = it.fn_span(fn)
        m = None
        for mm in re.finditer(r"([\w\.]+)\.push_str\(\s*(&\w+\[)", s):
            if lo <= mm.start() < hi and mask[mm.start()]:
                m = mm
                break
        if not m:
            break
        p = m.end(2) - 1  # the '['
        q = match_close(s, mask, p)
        r = s.index(")", q)
        semi = s.index(";", r)
        expr = s[m.start(2): q + 1]
        n += 1
        l, _ = it.buf.pos(m.start())
        flat = re.sub(r"\s+", " ", expr)
        new = f"let piece{n} = {flat}; {m.group(1)}.push_str(piece{n});"
        it.rules_applied.append({"rule": "L1", "file": it.relpath, "line": it._repo_line(l), "from": re.sub(r"\s+", " ", s[m.start(): semi + 1]), "to": new})
        it.buf.replace_span(m.start(), semi + 1, new, ("rule", "L1"))
    return n


def g1_guard_continue(it, fn, n):
    """G1: inside loop n of fn, a top-level `if C { continue; }` followed by REST becomes `if C { } else { REST }`
    (Verus `for` loops do not support `continue`; the two forms are the same control flow).  Applied only when the
    `if` block holds nothing but `continue;`."""
    count = 0
    while True:
        s = it.buf.text
        mask = code_mask(s)
        _, lbo, lbc = it.loop_span(fn, n)
        hit = None
        for m in re.finditer(r"\bif\b", s):
            if not (lbo < m.start() < lbc and mask[m.start()]):
                continue
            # top level of the loop body?
            depth = 0
            for k in range(lbo + 1, m.start()):
                if mask[k]:
                    depth += s[k] in "{([" 
                    depth -= s[k] in "})]"
            if depth != 0:
                continue
            j = m.end()
            d = 0
            while j < lbc:
                if mask[j]:
                    if s[j] in "([": d += 1
                    elif s[j] in ")]": d -= 1
                    elif s[j] == "{" and d == 0: break
                j += 1
            k = match_close(s, mask, j)
            inner = "".join(c for c, mk in zip(s[j + 1:k], mask[j + 1:k]) if mk).strip()
            if inner == "continue;":
                hit = (m, j, k)
                break
        if not hit:
            break
        m, j, k = hit
        l, _ = it.buf.pos(m.start())
        it.rules_applied.append({"rule": "G1", "file": it.relpath, "line": it._repo_line(l), "from": re.sub(r"\s+", " ", s[m.start():k + 1]), "to": "if C { } else { <rest of loop body> }"})
        # close the else before the loop body's closing brace, then rewrite the if block (back to front)
        it.buf.replace_span(lbc, lbc + 1, "}\n}", ("rule", "G1"))
        it.buf.replace_span(j, k + 1, "{\n} else {", ("rule", "G1"))
        count += 1
    return count


def build_rope(u, s):
    """ReplaceSource::rope against the same reference model, over the assumed Rope contracts"""
    s.rule_opt("D2", r"[ \t]*#\[allow\(clippy::manual_clamp\)\]\n", "")
    f1_name_for_iter(s, "rope")
    u.g1_sites_rope = g1_guard_continue(s, "rope", 1)
    s.sig("rope", [
        ("rope.requires", "contract", "requires self.dom_ok()"),
        ("rope.requires.len", "contract",
         "requires forall|idx: Seq<int>| #![trigger stable_sorted_idx(self.replacements@, idx)] stable_sorted_idx(self.replacements@, idx)\n"
         "    ==> splice(self.inner.text(), rviews(picks(self.replacements@, idx)), 0).len() <= usize::MAX"),
        ("rope.ensures", "contract",
         "ensures res.wf(), exists|idx: Seq<int>| stable_sorted_idx(self.replacements@, idx)\n"
         "    && res.bytes() == splice(self.inner.text(), rviews(picks(self.replacements@, idx)), 0)", F),
    ], ret="res")
    s.loop("rope", 1, [
        ("rope.loop1.frame", "contract",
         "invariant ib == inner_source_code.bytes(), ib == self.inner.text(), self.dom_ok(),\n"
         "  stable_sorted_idx(self.replacements@, idx), derefs(replacements@) == picks(self.replacements@, idx), rs == rviews(picks(self.replacements@, idx)),\n"
         "  inner_pos <= ib.len(), pos_ok(ib, inner_pos), source_code.wf(), inner_source_code.wf(), splice(ib, rs, 0).len() <= usize::MAX,"),
        ("rope.loop1.inv", "contract",
         "invariant source_code.bytes() + splice(ib, rs.skip(it.index@ as int), inner_pos as int) == splice(ib, rs, 0),", F),
    ])
    A = r"let\s+replacements\s*=\s*self\.sorted_replacement\(\);"
    s.at("rope", "after", A, "rope.hint.idx", "hint", "proof { assert(rs.len() == replacements@.len()); }", regex=True, nth=1)
    s.at("rope", "after", A, "rope.ghost.idx", "ghost",
         "let ghost ib = inner_source_code.bytes();\n"
         "let ghost idx = choose|idx: Seq<int>| stable_sorted_idx(self.replacements@, idx) && derefs(replacements@) == picks(self.replacements@, idx);\n"
         "let ghost rs = rviews(picks(self.replacements@, idx));", regex=True, optional=False, nth=1)
    s.at("rope", "before", r"return\s+inner_source_code;", "rope.hint.empty", "hint",
         "proof { assert(rs =~= Seq::<RS>::empty()); assert(ib.subrange(0, ib.len() as int) =~= ib); }", regex=True, tags=F, nth=1)
    s.at("rope", "before", r"for\s+replacement\s+in", "rope.hint.init", "hint",
         "proof {\n"
         "  assert(rs.skip(0) =~= rs);\n"
         "  assert(Seq::<u8>::empty() + splice(ib, rs, 0) =~= splice(ib, rs, 0));\n"
         "}", regex=True, tags=F, nth=1)
    s.loop_body_start("rope", 1, "rope.hint.iter", "hint",
                      "proof {\n"
                      "  assert(*replacement == replacements@[i]);\n"
                      "  assert(derefs(replacements@)[i] == **replacement);\n"
                      "  assert(**replacement == self.replacements@[idx[i]]);\n"
                      "  assert(r == rview(**replacement));\n"
                      "  assert(rs.skip(i)[0] == r);\n"
                      "  assert(rs.skip(i).skip(1) =~= rs.skip(i + 1));\n"
                      "}")
    s.loop_body_start("rope", 1, "rope.ghost.iter", "ghost",
                      "let ghost i = it.index@ as int;\n"
                      "let ghost r = rs[i];\n"
                      "let ghost b0 = source_code.bytes();\n"
                      "let ghost pos0 = inner_pos as int;")
    s.at("rope", "before", r"source_code\.append\(slice\);", "rope.hint.fits1", "hint",
         "proof { assert(splice(ib, rs.skip(i), pos0).len() >= slice.bytes().len() + r.content.len()); }", regex=True, nth=1, tags=F)
    s.at("rope", "before", r"source_code\.add\(&replacement\.content\);", "rope.hint.fits2", "hint",
         "proof { assert(splice(ib, rs.skip(i), pos0).len() >= (if pos0 < r.start { min2(r.start as int, ib.len() as int) - pos0 } else { 0 }) + r.content.len()); assert(replacement.content@ == self.replacements@[idx[i]].content@); }", regex=True, nth=1, tags=F)
    s.at("rope", "before", r"source_code\.add\(&replacement\.content\);", "rope.hint.mid", "hint",
         "proof { assert(source_code.bytes() =~= b0 + (if pos0 < r.start { ib.subrange(pos0, min2(r.start as int, ib.len() as int)) } else { Seq::<u8>::empty() })); }",
         regex=True, tags=F, nth=1)
    s.body_start("rope", "canary.rope", "canary", "proof { assert(false); }")
    s.loop_body_start("rope", 1, "canary.rope.loop1", "canary", "proof { assert(false); }")


def build(u):
    for x in ["use vstd::utf8::*;", "use vstd::string::StringSliceAdditionalSpecFns;", "use vstd::slice::SliceIndexSpec;",
              "use std::borrow::Cow;", "use std::sync::{Arc, Mutex, atomic::{AtomicBool, Ordering}};", "use std::ops::Index;", "use std::slice::SliceIndex;"]:
        u.use(x)
    u.raw("broadcast use {vstd::string::group_string_axioms, vstd::utf8::group_utf8_lib};", ("glue", NAME))
    u.spec("splice_spec.rs")
    # C05's view carries rope_core's length preconditions (discharged from the functional invariant); C17's view has no
    # functional clauses, so there "the rope's total length fits usize" stays an assumption of add/append (listed in evidence)
    u.raw(GLUE_ROPE, ("glue", NAME), tags=["C05"])
    u.raw(GLUE_ROPE.replace(", old(self).bytes().len() + value.bytes().len() <= usize::MAX", "").replace(", old(self).bytes().len() + value.spec_bytes().len() <= usize::MAX", ""), ("glue", NAME), tags=["C17"])
    u.raw(GLUE_TRAIT, ("glue", NAME))
    e = u.item("src/replace_source.rs", "pub enum ReplacementEnforce {")
    e.rule("D2", r"[ \t]*#\[default\]\n", "")
    u.item("src/replace_source.rs", "struct Replacement {")
    u.item("src/replace_source.rs", "pub struct ReplaceSource<T> {")
    u.raw(GLUE_SPEC, ("glue", NAME))
    u.raw(GLUE_VIEWS, ("glue", NAME))
    build_mutators(u)
    u.raw("impl<T: Source> ReplaceSource<T> {", ("glue", NAME))
    s = u.method("src/replace_source.rs", "impl<T: Source + Hash + PartialEq + Eq + 'static> Source for ReplaceSource<T>", "source")
    rp = u.method("src/replace_source.rs", "impl<T: Source + Hash + PartialEq + Eq + 'static> Source for ReplaceSource<T>", "rope")
    sz = u.method("src/replace_source.rs", "impl<T: Source + Hash + PartialEq + Eq + 'static> Source for ReplaceSource<T>", "size")
    bf = u.method("src/replace_source.rs", "impl<T: Source + Hash + PartialEq + Eq + 'static> Source for ReplaceSource<T>", "buffer")
    u.raw("}", ("glue", NAME))
    # buffer() holds exactly the bytes of source() (C07), i.e. the same splice
    bf.sig("buffer", [
        ("buffer.requires", "contract", "requires self.dom_ok()"),
        ("buffer.ensures", "contract",
         "ensures exists|idx: Seq<int>| #![trigger stable_sorted_idx(self.replacements@, idx)] stable_sorted_idx(self.replacements@, idx)\n"
         "    && cow_bytes(&res) == splice(self.inner.text(), rviews(picks(self.replacements@, idx)), 0)", F),
    ], ret="res")
    bf.rule("L2", r"match self\.source\(\) \{", "let src_cow = self.source();\n    match src_cow {", fn="buffer")
    bf.at("buffer", "after", r"let src_cow = self\.source\(\);", "buffer.hint.deref", "hint", "proof { axiom_cow_str_deref(&src_cow); }", regex=True, nth=1, tags=F)
    bf.body_start("buffer", "canary.buffer", "canary", "proof { assert(false); }")
    u.contracted += [("ReplaceSource::buffer", "src/replace_source.rs")]
    build_rope(u, rp)
    sz.sig("size", [
        ("size.requires", "contract", "requires self.dom_ok()"),
        ("size.ensures", "contract",
         "ensures exists|idx: Seq<int>| #![trigger stable_sorted_idx(self.replacements@, idx)] stable_sorted_idx(self.replacements@, idx)\n"
         "    && (splice(self.inner.text(), rviews(picks(self.replacements@, idx)), 0).len() <= usize::MAX ==> r == splice(self.inner.text(), rviews(picks(self.replacements@, idx)), 0).len())", F),
    ], ret="r")
    sz.body_start("size", "canary.size", "canary", "proof { assert(false); }")
    u.contracted += [("ReplaceSource::rope", "src/replace_source.rs"), ("ReplaceSource::size", "src/replace_source.rs")]
    # D3: capacity hint (allocation only)
    s.rule("D3", r"let max_len = replacements\s*\.iter\(\)\s*\.map\(\|replacement\| replacement\.content\.len\(\)\)\s*\.sum::<usize>\(\)\s*\+ inner_source_code\.len\(\);\n", "")
    s.rule("D3", r"String::with_capacity\(max_len\)", "String::new()")
    s.rule_opt("D2", r"[ \t]*#\[allow\(clippy::manual_clamp\)\]\n", "")
    f1_name_for_iter(s, "source")
    u.g1_sites = g1_guard_continue(s, "source", 1)
    u.l1_sites = l1_let_bind(s, "source")
    s.sig("source", [
        ("source.requires", "contract", "requires self.dom_ok()"),
        ("source.ensures", "contract",
         "ensures exists|idx: Seq<int>| stable_sorted_idx(self.replacements@, idx)\n"
         "    && cow_target(&res).spec_bytes() == splice(self.inner.text(), rviews(picks(self.replacements@, idx)), 0)", F),
    ], ret="res")
    s.loop("source", 1, [
        ("source.loop1.frame", "contract",
         "invariant ib == cow_target(&inner_source_code).spec_bytes(), ib == self.inner.text(), self.dom_ok(),\n"
         "  stable_sorted_idx(self.replacements@, idx), derefs(replacements@) == picks(self.replacements@, idx), rs == rviews(picks(self.replacements@, idx)),\n"
         "  inner_pos <= ib.len(), pos_ok(ib, inner_pos),"),
        ("source.loop1.inv", "contract",
         "invariant encode_utf8(source_code@) + splice(ib, rs.skip(it.index@ as int), inner_pos as int) == splice(ib, rs, 0),", F),
    ])
    s.at("source", "after", r"let\s+replacements\s*=\s*self\.sorted_replacement\(\);", "source.hint.idx", "hint",
         "proof { assert(rs.len() == replacements@.len()); }", regex=True, nth=1)
    s.at("source", "after", r"let\s+replacements\s*=\s*self\.sorted_replacement\(\);", "source.ghost.idx", "ghost",
         "let ghost ib = cow_target(&inner_source_code).spec_bytes();\n"
         "let ghost idx = choose|idx: Seq<int>| stable_sorted_idx(self.replacements@, idx) && derefs(replacements@) == picks(self.replacements@, idx);\n"
         "let ghost rs = rviews(picks(self.replacements@, idx));", regex=True, optional=False, nth=1)
    s.at("source", "before", r"return\s+inner_source_code;", "source.hint.empty", "hint",
         "proof { assert(rs =~= Seq::<RS>::empty()); assert(ib.subrange(0, ib.len() as int) =~= ib); }", regex=True, tags=F, nth=1)
    s.at("source", "before", r"for\s+replacement\s+in", "source.hint.init", "hint",
         "proof {\n"
         "  assert(rs.skip(0) =~= rs);\n"
         "  assert(encode_utf8(source_code@) =~= Seq::<u8>::empty());\n"
         "  assert(Seq::<u8>::empty() + splice(ib, rs, 0) =~= splice(ib, rs, 0));\n"
         "}", regex=True, tags=F, nth=1)
    s.loop_body_start("source", 1, "source.hint.iter", "hint",
                      "proof {\n"
                      "  assert(*replacement == replacements@[i]);\n"
                      "  assert(derefs(replacements@)[i] == **replacement);\n"
                      "  assert(**replacement == self.replacements@[idx[i]]);\n"
                      "  assert(r == rview(**replacement));\n"
                      "  assert(rs.skip(i)[0] == r);\n"
                      "  assert(rs.skip(i).skip(1) =~= rs.skip(i + 1));\n"
                      "}")
    s.loop_body_start("source", 1, "source.ghost.iter", "ghost",
                      "let ghost i = it.index@ as int;\n"
                      "let ghost r = rs[i];\n"
                      "let ghost ch0 = source_code@;\n"
                      "let ghost pos0 = inner_pos as int;")
    s.at("source", "after", r"let\s+piece1\s*=[^;]*;", "source.hint.piece1", "hint",
         "proof {\n"
         "  assert(piece1.spec_bytes() =~= ib.subrange(pos0, min2(r.start as int, ib.len() as int)));\n"
         "  encode_utf8_concat(ch0, piece1@);\n"
         "}", regex=True, tags=F, nth=1)
    s.at("source", "before", r"source_code\.push_str\(&replacement\.content\);", "source.hint.mid", "hint",
         "proof { assert(encode_utf8(source_code@) =~= encode_utf8(ch0) + (if pos0 < r.start { ib.subrange(pos0, min2(r.start as int, ib.len() as int)) } else { Seq::<u8>::empty() })); }",
         regex=True, tags=F, nth=1)
    s.at("source", "before", r"source_code\.push_str\(&replacement\.content\);", "source.ghost.ch1", "ghost", "let ghost ch1 = source_code@;", regex=True, optional=False, nth=1)
    s.at("source", "after", r"source_code\.push_str\(&replacement\.content\);", "source.hint.content", "hint",
         "proof { encode_utf8_concat(ch1, replacement.content@); }", regex=True, tags=F, nth=1)
    s.at("source", "after", r"let\s+piece2\s*=[^;]*;", "source.hint.tail", "hint",
         "proof {\n"
         "  assert(rs.skip(rs.len() as int) =~= Seq::<RS>::empty());\n"
         "  assert(piece2.spec_bytes() =~= ib.subrange(inner_pos as int, ib.len() as int));\n"
         "  encode_utf8_concat(chf, piece2@);\n"
         "}", regex=True, tags=F, nth=1)
    s.at("source", "after", r"let\s+piece2\s*=[^;]*;", "source.ghost.chf", "ghost", "let ghost chf = source_code@;", regex=True, optional=False, nth=1)
    s.at("source", "before", r"source_code\.into\(\)", "source.hint.end", "hint",
         "proof { assert(encode_utf8(source_code@) =~= splice(ib, rs, 0)); }", regex=True, tags=F, nth=1)
    s.body_start("source", "canary.source", "canary", "proof { assert(false); }")
    s.loop_body_start("source", 1, "canary.source.loop1", "canary", "proof { assert(false); }")
    u.contracted += [("ReplaceSource::source", "src/replace_source.rs")]
