"""U5 replace_helpers: the free function `check_content_at_position` of src/replace_source.rs must be total
(C17: a source map whose original line is 0 - "pointing outside the text" - reaches it with line == 0).
`Rope` and `WithIndices` enter as opaque external types whose two methods are total (assumed; WithIndices::substring
on &str is what K4 checks, the Rope instance is not verified)."""
NAME = "replace_helpers"
PROPS = ["C17"]
RLIMIT = 30

GLUE = r"""
// D6: opaque external types; the two methods called here are assumed total
#[verifier::external_body]
pub struct Rope<'a> { _p: std::marker::PhantomData<&'a str> }
impl<'a> Rope<'a> {
  #[verifier::external_body]
  pub fn starts_with(&self, value: &Rope) -> (r: bool) { unimplemented!() }
}
#[verifier::external_body]
#[verifier::reject_recursive_types(S)]
pub struct WithIndices<'a, S> { _p: std::marker::PhantomData<&'a S> }
impl<'a> WithIndices<'a, Rope<'a>> {
  #[verifier::external_body]
  pub fn substring(&self, start_index: usize, end_index: usize) -> (r: Rope<'a>) { unimplemented!() }
}
"""


def build(u):
    u.raw(GLUE, ("glue", NAME))
    f = u.item("src/replace_source.rs", "fn check_content_at_position<'a>(")
    # no `requires`: the function has to be total for every (line, column)
    f.sig("check_content_at_position", [("check_content_at_position.total", "contract", "ensures true")], ret="r")
    f.body_start("check_content_at_position", "canary.check_content_at_position", "canary", "proof { assert(false); }")
    u.contracted += [("check_content_at_position", "src/replace_source.rs")]
