"""U11 concat_views: `ConcatSource::{source, rope, buffer, size}` (src/concat_source.rs) against the concatenation of the children's
views (C07).  The trait contract on the children is C07 itself; what is proved is the induction step over the source tree: single-child
delegation and the four differently written multi-child paths all yield the concatenation, in order, for every number of children."""
NAME = "concat_views"
PROPS = ["C07"]
RLIMIT = 100

IMPL_S = "impl Source for ConcatSource {"
IMPL_C = "impl ConcatSource {"


def leaf_raw_source(u):
    """RawSource: a string or a binary value behind one type; the binary arm decodes lazily like RawBufferSource"""
    relpath, impl_anchor, tname = "src/raw_source.rs", "impl Source for RawSource {", "RawSource"
    u.item(relpath, "enum RawValue {")
    u.item(relpath, "pub struct RawSource {")
    u.raw("impl Source for RawSource {\n"
          "  closed spec fn text(&self) -> Seq<u8> { match self.value { RawValue::String(v) => cow_str_bytes(&v), RawValue::Buffer(v) => match lock_val(&self.value_as_string) { Some(s) => encode_utf8(s@), None => lossy(v@) } } }\n"
          "  closed spec fn raw(&self) -> Seq<u8> { match self.value { RawValue::String(v) => cow_str_bytes(&v), RawValue::Buffer(v) => v@ } }", ("glue", NAME))
    for fn in ("source", "rope", "buffer", "size"):
        m = u.method(relpath, impl_anchor, fn)
        if fn in ("source", "rope"):
            m.rule("W2", r"\.get_or_init\(\|\| String::from_utf8_lossy\(v\)\.to_string\(\)\)",
                   ".get_or_init(|| -> (r: String) ensures encode_utf8(r@) == lossy(v@) { lossy_string(v) })", fn=fn)
        if fn == "rope":
            m.rule("D6f", r"RawValue::Buffer\(v\) => Rope::from\(", "RawValue::Buffer(v) => Rope::from_string(", fn="rope")
            m.rule("D6f", r"RawValue::String\(s\) => Rope::from\(s\)", "RawValue::String(s) => Rope::from_cow(s)", fn="rope")
        m.body_start(fn, f"{tname}::{fn}.hint.deref", "hint", "broadcast use {axiom_cow_str_deref, axiom_str_len_bound};")
        m.body_start(fn, f"canary.{tname}::{fn}", "canary", "proof { assert(false); }")
        u.contracted.append((f"<{tname} as Source>::{fn}", relpath))
    u.raw("}", ("glue", NAME))


def leaf(u, relpath, struct_anchor, impl_anchor, tname, field, text_spec, from_fn, raw_spec=None, lazy=False):
    """a leaf's four content views against the reduced trait's contract (= C07 for that leaf): the methods are cut verbatim out of
    `impl Source for <leaf>` and re-assembled as an impl of the reduced trait, so Verus checks each against the trait's `ensures`"""
    u.item(relpath, struct_anchor)
    u.raw(f"impl Source for {tname} {{\n  closed spec fn text(&self) -> Seq<u8> {{ {text_spec} }}\n  closed spec fn raw(&self) -> Seq<u8> {{ {raw_spec or text_spec} }}", ("glue", NAME))
    for fn in ("source", "rope", "buffer", "size"):
        m = u.method(relpath, impl_anchor, fn)
        if lazy and fn in ("source", "rope"):
            # W2: the initialiser closure gets its type and the contract of the decoding it performs (`lossy` is uninterpreted: the
            # views only have to agree on it), so that Verus can check `get_or_init`'s precondition and use its result
            m.rule("W2", r"\.get_or_init\(\|\| String::from_utf8_lossy\(&self\.value\)\.to_string\(\)\)",
                   ".get_or_init(|| -> (r: String) ensures encode_utf8(r@) == lossy(self.value@) { lossy_string(&self.value) })", fn=fn)
        if lazy and fn == "rope":
            m.rule("D6f", r"Rope::from\(", "Rope::from_string(", fn="rope")
        elif fn == "rope":
            # D6f: `Rope::from(&self.<field>)` -> the named constructor of the opaque Rope type (`From<&String>` / `From<&Cow<str>>`)
            m.rule("D6f", r"Rope::from\(&self\." + field + r"\)", f"Rope::{from_fn}(&self.{field})", fn="rope")
        if fn in ("source", "buffer") and from_fn == "from_cow":
            m.body_start(fn, f"{tname}::{fn}.hint.deref", "hint", "broadcast use {axiom_cow_str_deref};")
        if fn == "size" and from_fn == "from_cow":
            m.body_start(fn, f"{tname}::{fn}.hint.deref", "hint", "broadcast use {axiom_cow_str_deref, axiom_str_len_bound};")
        m.body_start(fn, f"canary.{tname}::{fn}", "canary", "proof { assert(false); }")
        u.contracted.append((f"<{tname} as Source>::{fn}", relpath))
    u.raw("}", ("glue", NAME))


def build(u):
    for x in ["use vstd::string::StringSliceAdditionalSpecFns;", "use vstd::utf8::*;", "use std::borrow::Cow;", "use std::sync::Arc;", "use std::sync::OnceLock;"]:
        u.use(x)
    u.header.insert(0, "#![feature(allocator_api)]")
    u.raw("broadcast use vstd::string::group_string_axioms;", ("glue", NAME))
    u.spec("concat_spec.rs")
    # the forwarding impl behind `Arc<dyn Source>` (src/source.rs): what `children[i].source()` resolves to in the real crate
    u.raw("impl Source for BoxSource {\n  open spec fn text(&self) -> Seq<u8> { (**self).text() }\n  open spec fn raw(&self) -> Seq<u8> { (**self).raw() }", ("glue", NAME))
    for fn in ("source", "rope", "buffer", "size"):
        m = u.method("src/source.rs", "impl Source for BoxSource {", fn)
        m.body_start(fn, f"canary.BoxSource::{fn}", "canary", "proof { assert(false); }")
        u.contracted.append((f"<BoxSource as Source>::{fn}", "src/source.rs"))
    u.raw("}", ("glue", NAME))
    st = u.item("src/concat_source.rs", "pub struct ConcatSource {")
    u.raw("impl ConcatSource {", ("glue", NAME))
    ch = u.method("src/concat_source.rs", IMPL_C, "children")
    ch.sig("children", [("ConcatSource::children.ensures", "contract", "ensures r@ == self.children@")], ret="r")

    # ---- source ----
    so = u.method("src/concat_source.rs", IMPL_S, "source")
    # MC1: `let all = X.iter().map(|child| child.source()).collect();` (String: FromIterator<Cow<str>>) -> a loop pushing every piece
    # (std: `String::from_iter` of Cows = the first one made owned, extended by the rest = push_str of each in order)
    so.rule("MC1", r"let all = ([\w.()]+)\.iter\(\)\.map\(\|child\| child\.source\(\)\)\.collect\(\);",
            r"let mut all = String::new();\n      for child in it: \1.iter()\n      {\n        let piece = child.source();\n        all.push_str(&piece);\n      }", fn="source")
    so.sig("source", [("ConcatSource::source.ensures", "contract", "ensures cow_str_bytes(&r) == texts(self.children@)")], ret="r")
    so.at("source", "before", r"children\[0\]\.source\(\)", "ConcatSource::source.hint.one", "hint", "proof { lemma_cat_one(children@); }", regex=True, nth=1)
    so.loop("source", 1, [("ConcatSource::source.loop1.inv", "contract", "invariant encode_utf8(all@) == texts(self.children@.take(it.index@ as int)),")])
    so.at("source", "after", r"let mut all = String::new\(\);", "ConcatSource::source.hint.init", "hint",
          "proof { assert(self.children@.take(0) =~= Seq::<BoxSource>::empty()); lemma_empty_string(all@); }", regex=True, nth=1)
    so.at("source", "after", r"let piece = child\.source\(\);", "ConcatSource::source.hint.step", "hint",
          "proof { lemma_texts_take(self.children@, it.index@ as int); axiom_cow_str_deref(&piece); lemma_str_bytes(cow_target::<str>(&piece)); encode_utf8_concat(all@, cow_target::<str>(&piece)@); }", regex=True, nth=1)
    _, _, bc = so.loop_span("source", 1)
    so.buf.insert_at(bc + 1, ["    proof { assert(self.children@.take(self.children@.len() as int) =~= self.children@); }"], so._org("ConcatSource::source.hint.end", "hint", "source", None))
    so.body_start("source", "canary.ConcatSource::source", "canary", "proof { assert(false); }")
    so.loop_body_start("source", 1, "canary.ConcatSource::source.loop1", "canary", "proof { assert(false); }")

    # ---- rope ----
    ro = u.method("src/concat_source.rs", IMPL_S, "rope")
    ro.rule("F1", r"for child in children \{", "for child in it: children {", fn="rope")
    ro.sig("rope", [("ConcatSource::rope.requires", "contract", "requires texts(self.children@).len() <= usize::MAX"),
                    ("ConcatSource::rope.ensures", "contract", "ensures r.wf(), r.bytes() == texts(self.children@)")], ret="r")
    ro.at("rope", "before", r"children\[0\]\.rope\(\)", "ConcatSource::rope.hint.one", "hint", "proof { lemma_cat_one(children@); }", regex=True, nth=1)
    ro.loop("rope", 1, [("ConcatSource::rope.loop1.inv", "contract", "invariant rope.wf(), rope.bytes() == texts(children@.take(it.index@ as int)), texts(children@).len() <= usize::MAX,")])
    ro.at("rope", "after", r"let mut rope = Rope::new\(\);", "ConcatSource::rope.hint.init", "hint", "proof { assert(children@.take(0) =~= Seq::<BoxSource>::empty()); }", regex=True, nth=1)
    ro.loop_body_start("rope", 1, "ConcatSource::rope.hint.step", "hint", "proof { lemma_texts_take(children@, it.index@ as int); }")
    _, _, bc = ro.loop_span("rope", 1)
    ro.buf.insert_at(bc + 1, ["    proof { assert(children@.take(children@.len() as int) =~= children@); }"], ro._org("ConcatSource::rope.hint.end", "hint", "rope", None))
    ro.body_start("rope", "canary.ConcatSource::rope", "canary", "proof { assert(false); }")
    ro.loop_body_start("rope", 1, "canary.ConcatSource::rope.loop1", "canary", "proof { assert(false); }")

    # ---- buffer ----
    bu = u.method("src/concat_source.rs", IMPL_S, "buffer")
    # MC2: `let all = X.iter().map(|child| child.buffer()).collect::<Vec<_>>().concat();` -> a loop extending one Vec<u8> by every piece
    # (definition of collect followed by `[Cow<[u8]>]::concat`)
    bu.rule("MC2", r"let all = (\w+)\s*\.iter\(\)\s*\.map\(\|child\| child\.buffer\(\)\)\s*\.collect::<Vec<_>>\(\)\s*\.concat\(\);",
            r"let mut all: Vec<u8> = Vec::new();\n      for child in it: \1.iter()\n      {\n        let piece = child.buffer();\n        all.extend_from_slice(&piece);\n      }", fn="buffer")
    bu.sig("buffer", [("ConcatSource::buffer.ensures", "contract", "ensures cow_bytes(&r) == raws(self.children@)")], ret="r")
    bu.at("buffer", "before", r"children\[0\]\.buffer\(\)", "ConcatSource::buffer.hint.one", "hint", "proof { lemma_cat_one(children@); }", regex=True, nth=1)
    bu.loop("buffer", 1, [("ConcatSource::buffer.loop1.inv", "contract", "invariant all@ == raws(children@.take(it.index@ as int)),")])
    bu.at("buffer", "after", r"let mut all: Vec<u8> = Vec::new\(\);", "ConcatSource::buffer.hint.init", "hint", "proof { assert(children@.take(0) =~= Seq::<BoxSource>::empty()); }", regex=True, nth=1)
    bu.at("buffer", "after", r"let piece = child\.buffer\(\);", "ConcatSource::buffer.hint.step", "hint",
          "proof { lemma_raws_take(children@, it.index@ as int); axiom_cow_bytes_deref(&piece); }", regex=True, nth=1)
    _, _, bc = bu.loop_span("buffer", 1)
    bu.buf.insert_at(bc + 1, ["    proof { assert(children@.take(children@.len() as int) =~= children@); }"], bu._org("ConcatSource::buffer.hint.end", "hint", "buffer", None))
    bu.body_start("buffer", "canary.ConcatSource::buffer", "canary", "proof { assert(false); }")
    bu.loop_body_start("buffer", 1, "canary.ConcatSource::buffer.loop1", "canary", "proof { assert(false); }")

    # ---- size ----
    sz = u.method("src/concat_source.rs", IMPL_S, "size")
    # MS1: `X.iter().map(|child| child.size()).sum()` -> `{ let mut sum_r: usize = 0; for child in it: X.iter() { sum_r += child.size(); } sum_r }`
    # (Iterator::sum for usize folds with `+`, which panics on overflow exactly as `+=` does)
    sz.rule("MS1", r"([\w.()]+)\.iter\(\)\.map\(\|child\| child\.size\(\)\)\.sum\(\)",
            r"{ let mut sum_r: usize = 0;\n      for child in it: \1.iter()\n      {\n        sum_r += child.size();\n      }\n      sum_r }", fn="size")
    sz.sig("size", [("ConcatSource::size.requires", "contract", "requires raws(self.children@).len() <= usize::MAX"),
                    ("ConcatSource::size.ensures", "contract", "ensures n == raws(self.children@).len()")], ret="n")
    sz.loop("size", 1, [("ConcatSource::size.loop1.inv", "contract", "invariant sum_r == raws(self.children@.take(it.index@ as int)).len(), raws(self.children@).len() <= usize::MAX,")])
    sz.at("size", "after", r"let mut sum_r: usize = 0;", "ConcatSource::size.hint.init", "hint", "proof { assert(self.children@.take(0) =~= Seq::<BoxSource>::empty()); }", regex=True, nth=1)
    sz.loop_body_start("size", 1, "ConcatSource::size.hint.step", "hint", "proof { lemma_raws_take(self.children@, it.index@ as int); }")
    _, _, bc = sz.loop_span("size", 1)
    sz.buf.insert_at(bc + 1, ["    proof { assert(self.children@.take(self.children@.len() as int) =~= self.children@); }"], sz._org("ConcatSource::size.hint.end", "hint", "size", None))
    sz.body_start("size", "canary.ConcatSource::size", "canary", "proof { assert(false); }")
    sz.loop_body_start("size", 1, "canary.ConcatSource::size.loop1", "canary", "proof { assert(false); }")
    u.raw("}", ("glue", NAME))
    leaf(u, "src/original_source.rs", "pub struct OriginalSource {", "impl Source for OriginalSource {", "OriginalSource", "value", "encode_utf8(self.value@)", "from_string")
    # D6: `SourceMap` (fields of SourceMapSource that the four content views never touch) as an opaque type
    u.raw("#[verifier::external_body]\npub struct SourceMap { _p: std::marker::PhantomData<u8> }", ("glue", NAME))
    leaf(u, "src/source_map_source.rs", "pub struct SourceMapSource {", "impl Source for SourceMapSource {", "SourceMapSource", "value", "encode_utf8(self.value@)", "from_string")
    leaf_raw_source(u)
    leaf(u, "src/raw_source.rs", "pub struct RawBufferSource {", "impl Source for RawBufferSource {", "RawBufferSource", "value", 
         "match lock_val(&self.value_as_string) { Some(s) => encode_utf8(s@), None => lossy(self.value@) }", "from_string", raw_spec="self.value@", lazy=True)
    leaf(u, "src/raw_source.rs", "pub struct RawStringSource(", "impl Source for RawStringSource {", "RawStringSource", "0", "cow_str_bytes(&self.0)", "from_cow")
    u.contracted += [("ConcatSource::children", "src/concat_source.rs"), ("ConcatSource::source", "src/concat_source.rs"), ("ConcatSource::rope", "src/concat_source.rs"),
                     ("ConcatSource::buffer", "src/concat_source.rs"), ("ConcatSource::size", "src/concat_source.rs")]
