"""U7 rope_bounds: the two range-bound helpers every Rope slicing entry point goes through
(`get_byte_slice`, `byte_slice`, `byte_slice_unchecked`) must be total: `get_byte_slice(..=usize::MAX)` is an
out-of-bounds range that has to come back as None, not as an overflow panic (C17; C16's "no in-domain operation
panics")."""
NAME = "rope_bounds"
PROPS = ["C17"]
RLIMIT = 30


import re


def p1_ref_patterns(it):
    """P1: match arm `Ctor(&x) => E,` -> `Ctor(x) => E[x := (*x)],` (Verus has no `&` patterns; binding the
    reference and dereferencing at the uses is the same value)"""
    n = 0
    while True:
        s = it.buf.text
        m = re.search(r"\((&)(\w+)\)\s*=>\s*([^\n]*),", s)
        if not m:
            return n
        var = m.group(2)
        expr = re.sub(r"\b" + var + r"\b", f"(*{var})", m.group(3))
        new = f"({var}) => {expr},"
        l, _ = it.buf.pos(m.start())
        it.rules_applied.append({"rule": "P1", "file": it.relpath, "line": it._repo_line(l), "from": m.group(0), "to": new})
        it.buf.replace_span(m.start(), m.end(), new, ("rule", "P1"))
        n += 1


def build(u):
    u.use("use std::ops::Bound;")
    a = u.item("src/rope.rs", "fn start_bound_to_range_start(")
    b = u.item("src/rope.rs", "fn end_bound_to_range_end(")
    p1_ref_patterns(a)
    p1_ref_patterns(b)
    # no `requires`: total for every bound, and an inclusive/exclusive bound never comes back smaller than it went in
    a.sig("start_bound_to_range_start", [("start_bound_to_range_start.total", "contract",
          "ensures (match start { Bound::Included(s) => r == Some(*s), Bound::Excluded(s) => r is Some && r->0 >= *s, Bound::Unbounded => r is None })")], ret="r")
    b.sig("end_bound_to_range_end", [("end_bound_to_range_end.total", "contract",
          "ensures (match end { Bound::Included(e) => r is Some && r->0 >= *e, Bound::Excluded(e) => r == Some(*e), Bound::Unbounded => r is None })")], ret="r")
    a.body_start("start_bound_to_range_start", "canary.start_bound_to_range_start", "canary", "proof { assert(false); }")
    b.body_start("end_bound_to_range_end", "canary.end_bound_to_range_end", "canary", "proof { assert(false); }")
    u.contracted += [("start_bound_to_range_start", "src/rope.rs"), ("end_bound_to_range_end", "src/rope.rs")]
