"""U1 codec_enc: encode_vlq, FullMappingsEncoder, LinesOnlyMappingsEncoder, B64_CHARS.

Serves C12 (writer == enc_bytes/enc_state; lines-only writer == full writer on l_of(m)),
C11 (wire alphabet invariant), C17 (no overflow/shift/index panic under the stated domain),
C19 (String::from_utf8_unchecked reached only with ASCII).
"""
import re

from vx.extract import Lost, code_mask, match_close

NAME = "codec_enc"
PROPS = ["C12", "C11", "C17", "C19"]
RLIMIT = 200
F = ["C12"]          # functional clauses
W = ["C11", "C19"]   # wire-alphabet clauses (proved independently of the functional ones)


def d4_b64_chars(it):
    """D4: `const B64_CHARS: &[u8] = b"...";` -> `const B64_CHARS: [u8; N] = [b0, b1, ...];` (a byte-string literal
    is the array of its bytes; Verus sees the contents of an array const but not of a byte-string literal, and
    cannot coerce array -> slice in a const).  Indexing `B64_CHARS[i]` means the same on both types."""
    s = it.buf.text
    m = re.search(r'const B64_CHARS: &\[u8\] =\s*b"([^"\\]*)";', s, re.S)
    if not m:
        raise Lost("rule D4: B64_CHARS shape changed")
    lit = m.group(1)
    arr = ", ".join(str(ord(c)) for c in lit)
    it.rules_applied.append({"rule": "D4", "file": it.relpath, "line": it.first_line, "from": "const B64_CHARS: &[u8] = b\"..\"", "to": f"const B64_CHARS: [u8; {len(lit)}] = [..its bytes..]", "literal": lit})
    new = f"const B64_CHARS: [u8; {len(lit)}] = [{arr}];"
    it.buf.replace_span(m.start(), m.end(), new, ("rule", "D4"))
    return lit


ENC_TABLE_GLUE = r"""
proof fn lemma_b64_chars_table()
  ensures B64_CHARS@.len() == 64, forall|i: int| 0 <= i < 64 ==> #[trigger] B64_CHARS@[i] == b64(i)
{
  assert forall|i: int| 0 <= i < 64 implies #[trigger] B64_CHARS@[i] == b64(i) by { }
}
"""


def c1_closure(it, fn):
    """C1: `.is_some_and(|x| { B })` -> `.is_some_and(|x: &OriginalLocation| -> (r: bool) ensures r == (B') { B })`
    where B' is B itself with `.is_none()`/`.is_some()` spelled `is None`/`is Some` (Verus needs a
    closure's spec written out; the spec is literally the closure's own body)."""
    s = it.buf.text
    mask = code_mask(s)
    lo, _, hi = it.fn_span(fn)
    ms = [m for m in re.finditer(r"\.is_some_and\(\s*\|(\w+)\|\s*\{", s) if lo <= m.start() < hi and mask[m.start()]]
    if len(ms) != 1:
        raise Lost(f"rule C1: expected 1 is_some_and closure in {fn}, found {len(ms)}")
    m = ms[0]
    bo = m.end() - 1
    bc = match_close(s, mask, bo)
    body = s[bo + 1 : bc].strip()
    if ";" in body or "{" in body:
        raise Lost("rule C1: closure body is not a single expression")
    specbody = re.sub(r"\.is_none\(\)", " is None", body)
    specbody = re.sub(r"\.is_some\(\)", " is Some", specbody)
    head = f".is_some_and(|{m.group(1)}: &OriginalLocation| -> (r: bool)\n        ensures r == ({specbody})\n      {{"
    l, _ = it.buf.pos(m.start())
    it.rules_applied.append({"rule": "C1", "file": it.relpath, "line": it._repo_line(l), "from": m.group(0), "to": "typed closure with ensures r == (its own body)"})
    it.buf.replace_span(m.start(), m.end(), head, ("rule", "C1"))


def apply_loop_rules(it, fn):
    """R2 / R3a wherever they match in fn (either spelling of "push n semicolons" may be used by either encoder)"""
    n = it.rule_opt("R2", r"\(0\.\.([^\n]+?)\)\s*\.for_each\(\|_\|\s*([^\n]+?)\);(?=[ \t]*\n)", r"for _i in 0..\1 { \2; }", fn=fn)
    n += it.rule_opt("R3a", r"([\w\.]+?)\s*\.mappings\s*\.extend\((?:std::iter::)?repeat\(b';'\)\.take\(([^\n]+?)\)\);",
                     r"for _i in 0..\2 { \1.mappings.push(b';'); }", fn=fn)
    n += it.rule_opt("R3a", r"([\w\.]+?)\s*\.mappings\s*\.extend\((?:std::iter::)?repeat_n\(b';',\s*([^\n]+?)\)\);",
                     r"for _i in 0..\2 { \1.mappings.push(b';'); }", fn=fn)
    return n


def r3_extend_literal(it, fn):
    """R3b: `V.extend(b"xyz");` -> `V.push(b'x'); V.push(b'y'); V.push(b'z');` (Vec<u8>::extend over a byte
    string pushes its bytes in order; Verus knows a byte-string literal's length but not its contents)."""
    n = 0
    while True:
        s = it.buf.text
        lo, _, hi = it.fn_span(fn)
        m = None
        for mm in re.finditer(r'([\w\.]+)\.extend(?:_from_slice)?\(b"([A-Za-z0-9+/,;]*)"\);', s):
            if lo <= mm.start() < hi:
                m = mm
                break
        if not m:
            break
        v, lit = m.group(1), m.group(2)
        new = " ".join(f"{v}.push(b'{ch}');" for ch in lit)
        l, _ = it.buf.pos(m.start())
        it.rules_applied.append({"rule": "R3b", "file": it.relpath, "line": it._repo_line(l), "from": m.group(0), "to": new})
        it.buf.replace_span(m.start(), m.end(), new, ("rule", "R3b"))
        n += 1
    return n


ENC_GLUE = r"""
impl FullMappingsEncoder {
  pub closed spec fn es(&self) -> ES {
    ES { line: self.current_line, col: self.current_column, ol: self.current_original_line, oc: self.current_original_column,
         si: self.current_source_index, ni: self.current_name_index, am: self.active_mapping, an: self.active_name, init: self.initial }
  }
  pub closed spec fn bytes(&self) -> Seq<u8> { self.mappings@ }
}
"""

LINES_GLUE = r"""
impl LinesOnlyMappingsEncoder {
  pub closed spec fn ls(&self) -> LS { LS { lw: self.last_written_line, line: self.current_line, si: self.current_source_index, ol: self.current_original_line } }
  pub closed spec fn bytes(&self) -> Seq<u8> { self.mappings@ }
}
"""


# Client lemmas: the loop `for m in ms { encoder.encode(&m) }; encoder.drain()` of helpers::encode_mappings / get_map,
# written out against the CONTRACTS above (this is not repository code - the wrappers use `Box<dyn MappingsEncoder>` and
# iterator `for_each`, which rule D1 drops).  They show that the per-call preconditions chain (wf => every call's
# requires) and that iterating the contract gives exactly enc_all / lines_all, the functions the theorems of codec_thm
# are stated over.
CLIENT = r"""
fn client_encode_all(ms: &Vec<Mapping>) -> (r: String)
  requires wf(es0(), ms@)
  ensures r@ =~= bytes_as_chars(enc_all(es0(), ms@)), all_wire(enc_all(es0(), ms@))
{
  let mut e = FullMappingsEncoder::new();
  let mut i: usize = 0;
  proof { assert(ms@.skip(0) =~= ms@); assert(Seq::<u8>::empty() + enc_all(es0(), ms@) =~= enc_all(es0(), ms@)); }
  while i < ms.len()
    invariant i <= ms.len(), es_in_dom(e.es()), all_wire(e.bytes()), wf(e.es(), ms@.skip(i as int)),
      e.bytes() + enc_all(e.es(), ms@.skip(i as int)) == enc_all(es0(), ms@),
    decreases ms.len() - i
  {
    let ghost rest = ms@.skip(i as int);
    let ghost s = e.es();
    let ghost b = e.bytes();
    proof { assert(rest[0] == ms@[i as int]); assert(rest.skip(1) =~= ms@.skip(i as int + 1)); }
    e.encode(&ms[i]);
    proof { assert(b + (enc_bytes(s, rest[0]) + enc_all(enc_state(s, rest[0]), rest.skip(1))) =~= (b + enc_bytes(s, rest[0])) + enc_all(enc_state(s, rest[0]), rest.skip(1))); }
    i += 1;
  }
  proof { assert(ms@.skip(ms@.len() as int) =~= Seq::<Mapping>::empty()); assert(e.bytes() + Seq::<u8>::empty() =~= e.bytes()); }
  e.drain()
}

fn client_lines_all(ms: &Vec<Mapping>) -> (r: String)
  requires wf_lines(ls0(), ms@)
  ensures r@ =~= bytes_as_chars(lines_all(ls0(), ms@)), all_wire(lines_all(ls0(), ms@))
{
  let mut e = LinesOnlyMappingsEncoder::new();
  let mut i: usize = 0;
  proof { assert(ms@.skip(0) =~= ms@); assert(Seq::<u8>::empty() + lines_all(ls0(), ms@) =~= lines_all(ls0(), ms@)); }
  while i < ms.len()
    invariant i <= ms.len(), ls_inv(e.ls()), all_wire(e.bytes()), wf_lines(e.ls(), ms@.skip(i as int)),
      e.bytes() + lines_all(e.ls(), ms@.skip(i as int)) == lines_all(ls0(), ms@),
    decreases ms.len() - i
  {
    let ghost rest = ms@.skip(i as int);
    let ghost s = e.ls();
    let ghost b = e.bytes();
    proof { assert(rest[0] == ms@[i as int]); assert(rest.skip(1) =~= ms@.skip(i as int + 1)); }
    e.encode(&ms[i]);
    proof { assert(b + (lines_bytes(s, rest[0]) + lines_all(lines_state(s, rest[0]), rest.skip(1))) =~= (b + lines_bytes(s, rest[0])) + lines_all(lines_state(s, rest[0]), rest.skip(1))); }
    i += 1;
  }
  proof { assert(ms@.skip(ms@.len() as int) =~= Seq::<Mapping>::empty()); assert(e.bytes() + Seq::<u8>::empty() =~= e.bytes()); }
  e.drain()
}
"""


def build(u):
    u.item("src/source.rs", "pub struct Mapping {")
    u.item("src/source.rs", "pub struct OriginalLocation {")
    u.spec("codec_spec.rs")
    u.spec("lines_spec.rs")
    u.spec("codec_enc_lemmas.rs")
    u.spec("std_extra.rs")
    u.spec("codec_all_spec.rs")
    u.spec("lines_all_spec.rs")
    b = u.item("src/encoder.rs", "const B64_CHARS: &[u8]")
    u.b64_literal = d4_b64_chars(b)
    u.raw(ENC_TABLE_GLUE, ("glue", NAME))

    # ---- encode_vlq ---------------------------------------------------------------------------
    v = u.item("src/encoder.rs", "pub fn encode_vlq(")
    # the sidecar speaks about the function's own parameter / local names, whatever they are called
    raw = v.raw_text
    mp = re.search(r"fn\s+encode_vlq\s*\(\s*(\w+)\s*:\s*&mut\s+Vec<u8>\s*,\s*(\w+)\s*:\s*u32\s*,\s*(\w+)\s*:\s*u32", raw)
    mn = re.search(r"let\s+mut\s+(\w+)\s*=\s*if\b", raw)
    if not mp or not mn:
        raise Lost("encode_vlq: signature / accumulator shape changed")
    out, a, b = mp.group(1), mp.group(2), mp.group(3)
    num = mn.group(1)
    N = dict(out=out, a=a, b=b, num=num)
    v.sig("encode_vlq", [
        # the domain precondition belongs to the functional / alphabet views; in the C17 view encode_vlq is total
        ("encode_vlq.requires", "contract", "requires ({a} >= {b} ==> {a} - {b} < 0x8000_0000) && ({a} < {b} ==> {b} - {a} < 0x7fff_ffff)".format(**N), F + W),
        ("encode_vlq.len", "contract", "ensures final({out})@.len() > old({out})@.len(),".format(**N)),
        ("encode_vlq.ensures", "contract", "  final({out})@ == old({out})@ + vlq_digits(zz({a} as int, {b} as int)),".format(**N), F),
        ("encode_vlq.wire", "contract", "  all_wire(old({out})@) ==> all_wire(final({out})@),".format(**N), W + F),
    ])
    v.loop("encode_vlq", 1, [
        ("encode_vlq.loop1.inv", "contract", "invariant_except_break {out}@ + vlq_digits({num} as nat) == old({out})@ + vlq_digits(zz({a} as int, {b} as int))".format(**N), F),
        ("encode_vlq.loop1.len", "contract", "invariant {out}@.len() >= old({out})@.len(),".format(**N)),
        ("encode_vlq.loop1.wire", "contract", "  all_wire(old({out})@) ==> all_wire({out}@),".format(**N), W + F),
        ("encode_vlq.loop1.exit0", "contract", "ensures {out}@.len() > old({out})@.len(),".format(**N)),
        ("encode_vlq.loop1.exit", "contract", "  {out}@ == old({out})@ + vlq_digits(zz({a} as int, {b} as int)),".format(**N), F),
        ("encode_vlq.loop1.dec", "contract", "decreases {num}".format(**N)),
    ])
    v.body_start("encode_vlq", "encode_vlq.hint.shl", "hint",
                 ("proof {{\n"
                  "  if {a} >= {b} {{ let x = ({a} - {b}) as u32; assert(x < 0x8000_0000u32 ==> (x << 1) == 2 * x) by (bit_vector); }}\n"
                  "  else {{ let x = ({b} - {a}) as u32; assert(x < 0x7fff_ffffu32 ==> (x << 1) == 2 * x) by (bit_vector); }}\n"
                  "  assert(forall|x: u32| #[trigger] (x << 1) <= 0xffff_fffeu32) by (bit_vector);\n"
                  "  assert(forall|x: u32| #[trigger] (x << 1) | 1 == (x << 1) + 1) by (bit_vector);\n"
                  "}}").format(**N))
    v.loop_body_start("encode_vlq", 1, "encode_vlq.hint.digit", "hint",
                      ("let ghost num0 = {num};\n"
                       "proof {{\n"
                       "  lemma_b64_chars_table();\n"
                       "  assert(num0 & 0b11111 == num0 % 32) by (bit_vector);\n"
                       "  assert(num0 >> 5 == num0 / 32) by (bit_vector);\n"
                       "  assert(forall|d: u32| d < 32 ==> #[trigger] (d | (1u32 << 5)) == d + 32) by (bit_vector);\n"
                       "  assert(forall|d: u32| d < 32 ==> #[trigger] (d | 0x20u32) == d + 32) by (bit_vector);\n"
                       "  assert(forall|x: u32| #[trigger] (x & 0x1fu32) < 32) by (bit_vector);\n"
                       "  assert(forall|x: Seq<u8>, y: Seq<u8>, z: Seq<u8>| #[trigger] ((x + y) + z) =~= x + (y + z));\n"
                       "  assert(forall|i: int| 0 <= i < 64 ==> is_wire(#[trigger] b64(i)));\n"
                       "}}").format(**N))
    v.body_start("encode_vlq", "canary.encode_vlq", "canary", "proof { assert(false); }")
    v.loop_body_start("encode_vlq", 1, "canary.encode_vlq.loop1", "canary", "proof { assert(false); }")

    # ---- full encoder -------------------------------------------------------------------------
    u.item("src/encoder.rs", "struct FullMappingsEncoder {")
    u.raw(ENC_GLUE, ("glue", NAME))
    n = u.item("src/encoder.rs", "impl FullMappingsEncoder {")
    n.sig("new", [("FullMappingsEncoder::new.ensures", "contract", "ensures r.es() == es0(), r.bytes() == Seq::<u8>::empty()")], ret="r")
    f = u.item("src/encoder.rs", "impl MappingsEncoder for FullMappingsEncoder {")
    f.rule("D1", r"impl MappingsEncoder for FullMappingsEncoder \{", "impl FullMappingsEncoder {")
    f.rule("D2", r"#\[allow\(unsafe_code\)\]\n", "")
    c1_closure(f, "encode")
    apply_loop_rules(f, "encode")
    f.sig("encode", [
        ("FullMappingsEncoder::encode.requires", "contract",
         "requires es_in_dom(old(self).es()), m_in_dom(*mapping), all_wire(old(self).bytes())", F + W),
        ("FullMappingsEncoder::encode.sorted", "contract", "requires old(self).es().line <= mapping.generated_line"),
        ("FullMappingsEncoder::encode.ensures", "contract",
         "ensures final(self).es() == enc_state(old(self).es(), *mapping),\n"
         "  final(self).bytes() =~= old(self).bytes() + enc_bytes(old(self).es(), *mapping),", F),
        ("FullMappingsEncoder::encode.dom", "contract", "ensures es_in_dom(final(self).es()),", F + W),
        ("FullMappingsEncoder::encode.line", "contract", "ensures final(self).es().line == mapping.generated_line || final(self).es() == old(self).es(),"),
        ("FullMappingsEncoder::encode.wire", "contract", "  all_wire(final(self).bytes()),", W + F),
    ])
    f.loop("encode", 1, [
        ("FullMappingsEncoder::encode.loop1.frame", "contract", "invariant self.es() == old(self).es(),"),
        ("FullMappingsEncoder::encode.loop1.inv", "contract", "  self.bytes() == old(self).bytes() + semis(_i as nat),", F),
        ("FullMappingsEncoder::encode.loop1.wire", "contract", "  all_wire(self.bytes()),", W + F),
    ])
    f.loop_body_start("encode", 1, "FullMappingsEncoder::encode.hint.semis", "hint",
                      "proof { lemma_semis_push(old(self).bytes(), _i as nat); }", tags=F)
    H = "FullMappingsEncoder::encode.hint."
    f.at("encode", "before", r"return;", H + "ret1", "hint", "proof { assert(dropped(s0, m)); }", nth=1, tags=F)
    f.at("encode", "before", r"return;", H + "ret2", "hint", "proof { assert(dropped(s0, m)); }", nth=2, tags=F)
    f.at("encode", "before", r"if\s+self\.current_line\b", H + "kept", "hint", "proof { assert(!dropped(s0, m)); }", regex=True, tags=F)
    CALL = r"encode_vlq\([^;]*?\);"
    f.at("encode", "before", CALL, H + "sep", "hint",
         "proof { assert(self.bytes() =~= b0 + sep_bytes(s0, m)); assert(self.current_column == col0(s0, m)); }", nth=1, regex=True, tags=F)
    f.at("encode", "before", r"if\s+let\s+Some\(original\)", H + "p1", "hint",
         "proof { assert(self.bytes() =~= b0 + pfx1(s0, m)); }", regex=True, tags=F)
    f.at("encode", "before", CALL, H + "p2", "hint",
         "proof { assert(self.bytes() =~= b0 + pfx2(s0, m)); }", nth=3, regex=True, tags=F)
    f.at("encode", "before", r"if\s+original\.original_column\b", H + "p3", "hint",
         "proof { assert(self.bytes() =~= b0 + pfx3(s0, m)); }", regex=True, tags=F)
    f.at("encode", "before", r"if\s+let\s+Some\(name_index\)", H + "p4", "hint",
         "proof { assert(self.bytes() =~= b0 + pfx4(s0, m)); }", regex=True, tags=F)
    f.body_end("encode", H + "end", "hint", "proof { assert(self.bytes() =~= b0 + enc_bytes(s0, m)); }", tags=F)
    f.body_start("encode", H + "start", "hint",
                 "let ghost s0 = self.es();\n"
                 "let ghost b0 = self.bytes();\n"
                 "let ghost m = *mapping;\n"
                 "proof {\n"
                 "  assert(b0 + Seq::<u8>::empty() =~= b0);\n"
                 "  lemma_enc_facts(s0, m);\n"
                 "}")
    f.sig("drain", [
        ("FullMappingsEncoder::drain.requires", "contract", "requires all_wire(old(self).bytes())"),
        ("FullMappingsEncoder::drain.ensures", "contract", "ensures r@ =~= bytes_as_chars(old(self).bytes())", F + W),
    ], ret="r")
    n.body_start("new", "canary.FullMappingsEncoder::new", "canary", "proof { assert(false); }")
    f.body_start("encode", "canary.FullMappingsEncoder::encode", "canary", "proof { assert(false); }")
    f.loop_body_start("encode", 1, "canary.FullMappingsEncoder::encode.loop1", "canary", "proof { assert(false); }")
    f.body_start("drain", "canary.FullMappingsEncoder::drain", "canary", "proof { assert(false); }")

    # ---- lines-only encoder -------------------------------------------------------------------
    u.item("src/encoder.rs", "pub(crate) struct LinesOnlyMappingsEncoder {")
    u.raw(LINES_GLUE, ("glue", NAME))
    ln = u.item("src/encoder.rs", "impl LinesOnlyMappingsEncoder {")
    ln.sig("new", [("LinesOnlyMappingsEncoder::new.ensures", "contract", "ensures r.ls() == ls0(), r.bytes() == Seq::<u8>::empty()")], ret="r")
    g = u.item("src/encoder.rs", "impl MappingsEncoder for LinesOnlyMappingsEncoder {")
    g.rule("D1", r"impl MappingsEncoder for LinesOnlyMappingsEncoder \{", "impl LinesOnlyMappingsEncoder {")
    g.rule("D2", r"#\[allow\(unsafe_code\)\]\n", "")
    apply_loop_rules(g, "encode")
    u.r3b_sites = r3_extend_literal(g, "encode") + r3_extend_literal(f, "encode")
    g.sig("encode", [
        ("LinesOnlyMappingsEncoder::encode.requires", "contract",
         "requires ls_inv(old(self).ls()), m_in_dom(*mapping), all_wire(old(self).bytes())", F + W),
        ("LinesOnlyMappingsEncoder::encode.sorted", "contract", "requires old(self).ls().line <= mapping.generated_line"),
        ("LinesOnlyMappingsEncoder::encode.ensures", "contract",
         "ensures final(self).ls() == lines_state(old(self).ls(), *mapping),\n"
         "  final(self).bytes() =~= old(self).bytes() + lines_bytes(old(self).ls(), *mapping),", F),
        ("LinesOnlyMappingsEncoder::encode.dom", "contract", "ensures ls_inv(final(self).ls()),", F + W),
        ("LinesOnlyMappingsEncoder::encode.line", "contract", "ensures final(self).ls().line == mapping.generated_line || final(self).ls() == old(self).ls(),"),
        ("LinesOnlyMappingsEncoder::encode.wire", "contract", "  all_wire(final(self).bytes()),", W + F),
    ])
    g.loop("encode", 1, [
        ("LinesOnlyMappingsEncoder::encode.loop1.frame", "contract", "invariant self.ls() == (LS { lw: mapping.generated_line, ..old(self).ls() }),"),
        ("LinesOnlyMappingsEncoder::encode.loop1.inv", "contract", "  self.bytes() == old(self).bytes() + semis(_i as nat),", F),
        ("LinesOnlyMappingsEncoder::encode.loop1.wire", "contract", "  all_wire(self.bytes()),", W + F),
    ])
    g.loop_body_start("encode", 1, "LinesOnlyMappingsEncoder::encode.hint.semis", "hint",
                      "proof { lemma_semis_push(old(self).bytes(), _i as nat); }", tags=F)
    g.body_end("encode", "LinesOnlyMappingsEncoder::encode.hint.end", "hint", "proof { assert(self.bytes() =~= b0 + lines_bytes(l0, m)); }", tags=F)
    g.body_start("encode", "LinesOnlyMappingsEncoder::encode.hint.start", "hint",
                 "let ghost l0 = self.ls();\n"
                 "let ghost b0 = self.bytes();\n"
                 "let ghost m = *mapping;\n"
                 "proof {\n"
                 "  assert(b0 + Seq::<u8>::empty() =~= b0);\n"
                 "  lemma_lines_facts(l0, m);\n"
                 "}", tags=F + W)
    g.sig("drain", [
        ("LinesOnlyMappingsEncoder::drain.requires", "contract", "requires all_wire(old(self).bytes())"),
        ("LinesOnlyMappingsEncoder::drain.ensures", "contract", "ensures r@ =~= bytes_as_chars(old(self).bytes())", F + W),
    ], ret="r")
    ln.body_start("new", "canary.LinesOnlyMappingsEncoder::new", "canary", "proof { assert(false); }")
    g.body_start("encode", "canary.LinesOnlyMappingsEncoder::encode", "canary", "proof { assert(false); }")
    g.loop_body_start("encode", 1, "canary.LinesOnlyMappingsEncoder::encode.loop1", "canary", "proof { assert(false); }")
    g.body_start("drain", "canary.LinesOnlyMappingsEncoder::drain", "canary", "proof { assert(false); }")

    u.raw(CLIENT, ("glue", NAME + ":client"), tags=F)
    u.contracted += [
        ("encode_vlq", "src/encoder.rs"),
        ("FullMappingsEncoder::new", "src/encoder.rs"), ("FullMappingsEncoder::encode", "src/encoder.rs"), ("FullMappingsEncoder::drain", "src/encoder.rs"),
        ("LinesOnlyMappingsEncoder::new", "src/encoder.rs"), ("LinesOnlyMappingsEncoder::encode", "src/encoder.rs"), ("LinesOnlyMappingsEncoder::drain", "src/encoder.rs"),
    ]
