#!/usr/bin/env python3
"""regenerate MANIFEST.json from vx/plan.py (claimed) + the not-applicable table below"""
import json, os, sys
sys.path.insert(0, os.path.dirname(os.path.abspath(__file__)))
from vx import plan
NA = {
"C01":"every function on the path takes `&mut dyn FnMut` chunk callbacks, which Verus rejects; Kani does not finish symbolic execution of the smallest instance (DESIGN §0, §2)",
"C02":"same streaming path; the position state machine is closure-captured state with no function boundary to put a contract on",
"C03":"same streaming path; only the encoder's drop rule is decidable and is proved under C12",
"C04":"provenance runs through Rope/WithIndices/callback streaming code that neither verifier ingests",
"C06":"index translation happens inside streaming closures (`&mut dyn FnMut`)",
"C07":"composite views are iterator-adapter chains over Cow<str>/Rope that Verus rejects; Kani cannot make text contents symbolic here",
"C08":"stream_chunks_of_source_map_* are callback-driven",
"C09":"480 lines of nested closures over RefCell tables",
"C10":"reduces to C03 plus DashMap internals (Kani compiler ICE on DashMap)",
"C13":"attribution laws need streaming contracts; the text laws would need ConcatSource::new / add (flat_map + downcast_ref flattening) and CachedSource (DashMap) under contract, which C07's partial claim does not reach",
"C15":"the property is entirely a contract on simd-json/serde, outside any contract within reach",
"C16":"every Rope method is closure-with-tuple-pattern code (Verus rejects); Kani OOM-killed on 3-piece ropes",
"C18":"Kani has no thread model; Verus would need its own permission types in place of Mutex/AtomicBool/DashMap",
"C20":"sensitivity is injectivity of std's Hash encodings; assuming it carries the whole property",
"C05":"check under construction in this session (will be claimed; see DESIGN §0)",
"C14":"check under construction in this session (will be claimed; see DESIGN §0)",
}
checks = []
for pid, P in sorted(plan.PLAN.items()):
    checks.append({
        "property_id": pid,
        "quick_cmd": f"./check {pid} --tier quick",
        "thorough_cmd": f"./check {pid} --tier thorough",
        "evidence_file": f"evidence/{pid}.json",
        "replay_cmd_template": f"./check {pid} --replay {{path}}",
        "engine": P.get("engine", "verus-extract"),
        "level_claimed": {"category": P["level"], "text": P["claim"], "design_ref": P.get("design_ref", "DESIGN.md §4")},
        "level_note": P["note"],
        "technique": P["technique"],
    })
m = {"version": 1, "setup_cmd": "./setup.sh",
     "hooks": {"guard": "none (no hook in /repo; cfg(kani) harness modules are appended only to scratch copies made at run time)",
               "enable": "n/a - checks read /repo/src directly (Verus extraction) or copy it to a scratch dir (Kani, replay twin)",
               "baseline_off_cmd": "cd /repo && cargo test --workspace --no-fail-fast --offline",
               "source_commits": plan.FIX_COMMITS, "add_only": True},
     "engines": [
        {"name": "verus-extract", "path": "vx/", "serves_properties": sorted(p for p, P in plan.PLAN.items() if P.get("verus_units")),
         "kind_free_text": "mechanical extraction of /repo functions into Verus units with sidecar contracts (contracts/*.py, spec/*.rs); Verus 0.2026.09.13 + Z3 discharge every obligation"},
        {"name": "kani-scratch", "path": "kani/", "serves_properties": sorted(p for p, P in plan.PLAN.items() if P.get("kani")),
         "kind_free_text": "Kani 0.68/CBMC harness child-modules appended to a scratch copy of the crate"}],
     "checks": checks,
     "notes": "exit 0 pass / 1 VIOLATION / 2 UNDECIDED (tool limit, lost anchor; never an alarm). See DESIGN.md.",
     "not_applicable": [{"property_id": k, "reason": v} for k, v in sorted(NA.items()) if k not in plan.PLAN]}
json.dump(m, open(os.path.join(os.path.dirname(os.path.abspath(__file__)), "MANIFEST.json"), "w"), indent=1)
print("claimed:", [c["property_id"] for c in checks])
