#!/bin/sh
# one-time setup after a fresh restore (offline): check tools, warm caches.
cd "$(dirname "$0")" || exit 1
command -v verus >/dev/null || { echo "verus not on PATH"; exit 1; }
mkdir -p work evidence replay
# warm the Verus/vstd load (first run is slow)
printf 'use vstd::prelude::*;\nverus!{ proof fn t() ensures 1 + 1 == 2int {} }\nfn main(){}\n' > work/warm.rs
( cd work && verus warm.rs >/dev/null 2>&1 ); rm -f work/warm.rs
[ -x ./setup_extra.sh ] && ./setup_extra.sh
exit 0
