//! C07: all content views of a source agree.  Random source trees (string / buffer / original leaves, ConcatSource built by
//! `new` and `add`, typed or boxed children, nested, ReplaceSource, CachedSource) against a model that carries, per node, the
//! text (what source() and rope() denote) and the raw bytes (what buffer() holds and size() counts): concatenation for
//! ConcatSource, the leaf's own for leaves.  to_writer is checked against buffer(), also with a writer that fails after k bytes.
use crate::rng::Rng;
use rspack_sources::{BoxSource, CachedSource, ConcatSource, OriginalSource, RawBufferSource, RawSource, RawStringSource, ReplaceSource, Source, SourceExt};
use std::io::Write;
use std::panic::{catch_unwind, AssertUnwindSafe};

const TEXTS: [&str; 8] = ["", "a", "bc\n", "é", "日本\nx", "😀", "line1\nline2\n", ";{}"];
// the last two are the halves of "a\u{20ac}b": each is invalid on its own, their concatenation is valid UTF-8
const BUFS: [&[u8]; 6] = [b"", b"raw", &[0xff, 0x61, 0xfe], &[0xe6, 0x97], &[0x61, 0xe2, 0x82], &[0xac, 0x62]];

/// tree encoding: S<k> string leaf, B<k> buffer leaf, O<k> original leaf, C(..) concat via new (typed leaves boxed), A(..) concat via repeated add,
/// X(t) boxed, K(t) cached, R(t) replace with no replacements, N(..) concat of one nested typed ConcatSource child
#[derive(Clone, Debug)]
enum T { S(usize), B(usize), O(usize), C(Vec<T>), A(Vec<T>), K(Box<T>), R(Box<T>) }

fn enc(t: &T) -> String {
  match t {
    T::S(k) => format!("S{k}"), T::B(k) => format!("B{k}"), T::O(k) => format!("O{k}"),
    T::C(v) => format!("C({})", v.iter().map(enc).collect::<Vec<_>>().join(",")),
    T::A(v) => format!("A({})", v.iter().map(enc).collect::<Vec<_>>().join(",")),
    T::K(t) => format!("K({})", enc(t)), T::R(t) => format!("R({})", enc(t)),
  }
}
fn dec(s: &[u8], i: &mut usize) -> T {
  let c = s[*i]; *i += 1;
  let num = |i: &mut usize| { let mut n = 0; while *i < s.len() && s[*i].is_ascii_digit() { n = n * 10 + (s[*i] - b'0') as usize; *i += 1; } n };
  match c {
    b'S' => T::S(num(i)), b'B' => T::B(num(i)), b'O' => T::O(num(i)),
    b'C' | b'A' => { *i += 1; let mut v = vec![]; while s[*i] != b')' { if s[*i] == b',' { *i += 1; } v.push(dec(s, i)); } *i += 1; if c == b'C' { T::C(v) } else { T::A(v) } }
    _ => { *i += 1; let t = dec(s, i); *i += 1; if c == b'K' { T::K(Box::new(t)) } else { T::R(Box::new(t)) } }
  }
}
fn build(t: &T) -> BoxSource {
  match t {
    // indices beyond the catalogue select the same datum behind the RawSource type (string arm / binary arm)
    T::S(k) => if *k < TEXTS.len() { RawStringSource::from(TEXTS[*k % TEXTS.len()]).boxed() } else { RawSource::from(TEXTS[*k % TEXTS.len()].to_string()).boxed() },
    T::B(k) => if *k < BUFS.len() { RawBufferSource::from(BUFS[*k % BUFS.len()].to_vec()).boxed() } else { RawSource::from(BUFS[*k % BUFS.len()].to_vec()).boxed() },
    T::O(k) => OriginalSource::new(TEXTS[*k % TEXTS.len()], "f.js").boxed(),
    T::C(v) => {
      // typed ConcatSource children are flattened by `new`, boxed ones are not: alternate
      let kids: Vec<BoxSource> = v.iter().map(build).collect();
      ConcatSource::new(kids).boxed()
    }
    T::A(v) => { let mut c = ConcatSource::default(); for x in v { match x { T::C(w) | T::A(w) => { let inner = ConcatSource::new(w.iter().map(build).collect::<Vec<_>>()); c.add(inner); } _ => c.add(build(x)) } } c.boxed() }
    T::K(t) => CachedSource::new(build(t)).boxed(),
    T::R(t) => ReplaceSource::new(build(t)).boxed(),
  }
}
/// (text, raw) of the model
fn model(t: &T) -> (String, Vec<u8>) {
  match t {
    T::S(k) | T::O(k) => { let s = TEXTS[*k % TEXTS.len()]; (s.to_string(), s.as_bytes().to_vec()) }
    T::B(k) => { let b = BUFS[*k % BUFS.len()]; (String::from_utf8_lossy(b).into_owned(), b.to_vec()) }
    T::C(v) | T::A(v) => { let mut s = String::new(); let mut r = vec![]; for x in v { let (a, b) = model(x); s.push_str(&a); r.extend(b); } (s, r) }
    T::K(t) => model(t),
    // a ReplaceSource renders its inner source()'s text: its buffer is the bytes of that text
    T::R(t) => { let (s, _) = model(t); let b = s.as_bytes().to_vec(); (s, b) }
  }
}
struct Failing { left: usize, got: Vec<u8> }
impl Write for Failing {
  fn write(&mut self, b: &[u8]) -> std::io::Result<usize> {
    if self.left == 0 { return Err(std::io::Error::new(std::io::ErrorKind::Other, "full")); }
    let n = b.len().min(self.left); self.got.extend_from_slice(&b[..n]); self.left -= n; Ok(n)
  }
  fn flush(&mut self) -> std::io::Result<()> { Ok(()) }
}
fn check(t: &T) -> Option<String> {
  let r = catch_unwind(AssertUnwindSafe(|| {
    let s = build(t);
    let (mt, mr) = model(t);
    // observers in two orders (caches)
    for round in 0..2 {
      let src = s.source().into_owned();
      if src != mt { return Some(format!("source() = {:?}, the tree denotes {:?}", src, mt)); }
      let rope = s.rope().to_string();
      if rope != src { return Some(format!("rope() renders {:?}, source() is {:?}", rope, src)); }
      let buf = s.buffer().into_owned();
      if buf != mr { return Some(format!("buffer() = {:?}, expected {:?} (round {round})", buf, mr)); }
      if s.size() != buf.len() { return Some(format!("size() = {} but buffer() has {} bytes", s.size(), buf.len())); }
      let mut w = vec![];
      if s.to_writer(&mut w).is_err() || w != buf { return Some(format!("to_writer wrote {:?}, buffer() is {:?}", w, buf)); }
      for k in 0..=buf.len() {
        let mut f = Failing { left: k, got: vec![] };
        let res = s.to_writer(&mut f);
        if !buf.starts_with(&f.got) { return Some(format!("to_writer into a writer failing after {k} bytes wrote {:?}, not a prefix of buffer() {:?}", f.got, buf)); }
        if k < buf.len() && res.is_ok() { return Some(format!("to_writer reported success although the writer failed after {k} of {} bytes", buf.len())); }
      }
    }
    None
  }));
  match r { Ok(x) => x, Err(p) => Some(format!("panic: {}", p.downcast_ref::<String>().cloned().or_else(|| p.downcast_ref::<&str>().map(|s| s.to_string())).unwrap_or_default())) }
}
fn gen(rng: &mut Rng, depth: u32) -> T {
  let c = if depth == 0 { rng.below(3) } else { rng.below(8) };
  match c {
    0 => T::S(rng.below(2 * TEXTS.len() as u64) as usize),
    1 => T::B(rng.below(2 * BUFS.len() as u64) as usize),
    2 => T::O(rng.below(TEXTS.len() as u64) as usize),
    3 | 4 => T::C((0..rng.below(4)).map(|_| gen(rng, depth - 1)).collect()),
    5 => T::A((0..rng.below(4)).map(|_| gen(rng, depth - 1)).collect()),
    6 => T::K(Box::new(gen(rng, depth - 1))),
    _ => T::R(Box::new(gen(rng, depth - 1))),
  }
}
pub fn search(args: &[String]) -> i32 {
  let seed: u64 = args.first().and_then(|s| s.parse().ok()).unwrap_or(1);
  let budget: u64 = args.get(1).and_then(|s| s.parse().ok()).unwrap_or(4000);
  std::panic::set_hook(Box::new(|_| {}));
  let mut rng = Rng(seed.wrapping_mul(0x9E3779B97F4A7C15) | 1);
  let mut tried = 0u64;
  let fixed = ["C()", "C(S1)", "C(B2)", "C(S1,S3)", "C(B2,S3,B3)", "A(S1,C(S2,S3))", "C(C(S1,S2),S4)", "K(C(B2,S1))", "R(C(S1,S4))", "C(R(S4),K(B2),O6)", "A(A(S1),S0,C())", "C(S0,S0)", "C(O6,O2,S5)", "C(B4,B5)", "A(B4,B5,S1)", "C(S1,C(B4,B5))", "K(C(B4,B5))", "C(B3,B5)", "C(S12,B8)", "S14", "B10", "C(S9)", "K(C(B10,S13))"];
  for f in fixed {
    tried += 1; println!("CASE {f}");
    let mut i = 0; let t = dec(f.as_bytes(), &mut i);
    if let Some(e) = check(&t) { return report(f, &e, tried); }
  }
  while tried < budget {
    tried += 1;
    let t = gen(&mut rng, 3);
    let s = enc(&t);
    println!("CASE {s}");
    if let Some(e) = check(&t) { return report(&s, &e, tried); }
  }
  println!("NO-WITNESS tried={tried}");
  0
}
fn report(input: &str, e: &str, tried: u64) -> i32 {
  println!("WITNESS kind=views input={input}");
  println!("DETAIL source tree {input} (S/O texts {:?}, B buffers {:?}): {}", TEXTS, BUFS, e.replace('\n', "\\n"));
  println!("TRIED {tried}");
  1
}
pub fn replay(w: &str) -> i32 {
  println!("CASE {w}");
  let mut i = 0; let t = dec(w.as_bytes(), &mut i);
  match check(&t) { Some(e) => { println!("REPRODUCED {}", e.replace('\n', "\\n")); 1 } None => { println!("NOT-REPRODUCED"); 0 } }
}
