//! differential search for C14 (equality / hashing / cloning are coherent and history-independent) on the leaf types
//! and ReplaceSource: two values built by the same (or by deliberately different) constructor calls, arbitrary observer
//! calls on either, then every coherence law is checked.  Used for witnesses / replay only.
use std::hash::{Hash, Hasher};
use std::panic;

use crate::rng::Rng;
use rspack_sources::{BoxSource, MapOptions, OriginalSource, RawBufferSource, RawSource, RawStringSource, ReplaceSource, ReplacementEnforce, Source, SourceExt, SourceMap, SourceMapSource, SourceMapSourceOptions};

fn eqs(a: &BoxSource, b: &BoxSource) -> bool { a.as_ref() == b.as_ref() }
fn h(s: &BoxSource) -> u64 { let mut x = std::collections::hash_map::DefaultHasher::new(); s.hash(&mut x); x.finish() }

/// build source number `kind` from data item `d`; returns (boxed source, abstract value as a string)
fn build(kind: u8, d: usize, extra: &[(u32, u32, u8, u8)]) -> (BoxSource, String) {
  const BUFS: [&[u8]; 4] = [b"ab", b"a\xffb", b"", b"a\xef\xbf\xbdb"];
  const STRS: [&str; 4] = ["ab", "a\u{fffd}b", "", "h\u{e9}llo\nw"];
  match kind {
    0 => (RawSource::from(BUFS[d % 4].to_vec()).boxed(), format!("RawSource::Buffer({:?})", BUFS[d % 4])),
    1 => (RawSource::from(STRS[d % 4].to_string()).boxed(), format!("RawSource::String({:?})", STRS[d % 4])),
    2 => (RawSource::from_static(STRS[d % 4]).boxed(), format!("RawSource::String({:?})", STRS[d % 4])),
    3 => (RawBufferSource::from(BUFS[d % 4].to_vec()).boxed(), format!("RawBufferSource({:?})", BUFS[d % 4])),
    4 => (RawStringSource::from(STRS[d % 4].to_string()).boxed(), format!("RawStringSource({:?})", STRS[d % 4])),
    5 => (OriginalSource::new(STRS[d % 4], if d >= 4 { "g.js" } else { "f.js" }).boxed(), format!("OriginalSource({:?},{})", STRS[d % 4], d >= 4)),
    7 => {
      let map = SourceMap::new(if d % 2 == 1 { "AAAA,CAAC" } else { "AAAA" }, vec!["a.js".to_string()], Vec::<String>::new(), Vec::<String>::new());
      let opts = SourceMapSourceOptions { value: STRS[(d / 2) % 2], name: "x.js", source_map: map,
        original_source: if d % 8 >= 6 { Some("o".to_string()) } else { None }, inner_source_map: None, remove_original_source: d % 8 == 4 || d % 8 == 5 };
      (SourceMapSource::new(opts).boxed(), format!("SourceMapSource(d={})", d % 8))
    }
    _ => {
      let mut r = ReplaceSource::new(RawStringSource::from_static("0123456789"));
      let mut desc = String::from("ReplaceSource[");
      for (i, &(s, e, k, obs)) in extra.iter().enumerate() {
        let enf = match k { 0 => ReplacementEnforce::Pre, 1 => ReplacementEnforce::Normal, _ => ReplacementEnforce::Post };
        r.replace_with_enforce(s, e, ["X", "Y", "Z"][i % 3], None, enf);
        desc += &format!("({s},{e},{k},{})", ["X", "Y", "Z"][i % 3]);
        // observers between mutating calls (must not matter)
        match obs % 5 { 1 => { let _ = r.source(); } 2 => { let _ = r.size(); } 3 => { let c = r.clone(); r = c; } 4 => { let _ = r.source(); let c = r.clone(); r = c; } _ => {} }
      }
      (r.boxed(), desc + "]")
    }
  }
}
fn observe(s: &BoxSource, k: u8) -> BoxSource {
  match k % 8 {
    1 => { let _ = s.source(); s.clone() }
    2 => { let _ = s.buffer(); s.clone() }
    3 => { let _ = s.size(); s.clone() }
    4 => { let _ = s.map(&MapOptions::default()); s.clone() }
    5 => { let _ = h(s); s.clone() }
    6 => { let _ = s.rope().to_string(); s.clone() }
    7 => { let _ = s.source(); let c = s.clone(); let _ = c.source(); c }
    _ => s.clone(),
  }
}
#[derive(Clone, Debug)]
struct Case { ka: u8, da: usize, kb: u8, db: usize, oa: Vec<u8>, ob: Vec<u8>, ea: Vec<(u32, u32, u8, u8)>, eb: Vec<(u32, u32, u8, u8)> }

fn check(c: &Case) -> Option<String> {
  let c2 = c.clone();
  let r = panic::catch_unwind(move || {
    let c = &c2;
    let (mut a, va) = build(c.ka, c.da, &c.ea);
    let (mut b, vb) = build(c.kb, c.db, &c.eb);
    // reference value: the same constructor calls with NO observer in between (history independence)
    let ea0: Vec<(u32, u32, u8, u8)> = c.ea.iter().map(|&(s, e, k, _)| (s, e, k, 0)).collect();
    let (a0, _) = build(c.ka, c.da, &ea0);
    let h0 = h(&a0);
    let src0 = a0.source().to_string();
    for &k in &c.oa { a = observe(&a, k); }
    for &k in &c.ob { b = observe(&b, k); }
    let want_eq = va == vb;
    if eqs(&a, &b) != want_eq { return Some(format!("a == b is {} but the values are {}: a = {va}, b = {vb}", eqs(&a, &b), if want_eq { "built by the same constructor calls" } else { "different" })); }
    if eqs(&a, &b) != eqs(&b, &a) { return Some(format!("== is not symmetric for a = {va}, b = {vb}")); }
    if h(&a) != h0 { return Some(format!("hash of an unchanged value moved after observer calls {:?}: a = {va}", c.oa)); }
    if eqs(&a, &b) && h(&a) != h(&b) { return Some(format!("a == b but the hashes differ: a = {va}, b = {vb}")); }
    if eqs(&a, &b) && (a.source() != b.source() || a.buffer() != b.buffer() || a.size() != b.size()) { return Some(format!("a == b but observers answer differently: a = {va}, b = {vb}")); }
    let cl = a.clone();
    if !eqs(&cl, &a) || h(&cl) != h0 { return Some(format!("clone is not equal to / hashes differently from its original: a = {va} after observers {:?}", c.oa)); }
    if cl.source() != src0.as_str() || a.source() != src0.as_str() { return Some(format!("source() of the value or of its clone changed with the observer history {:?}: a = {va}", c.oa)); }
    if cl.size() != a.size() || cl.buffer() != a.buffer() { return Some(format!("clone is not observationally identical: a = {va}")); }
    None
  });
  match r { Ok(x) => x, Err(_) => Some("panic while comparing / hashing / cloning".to_string()) }
}

fn gen(r: &mut Rng) -> Case {
  let ka = r.below(8) as u8;
  let same = r.below(2) == 0;
  let kb = if same { ka } else { r.below(8) as u8 };
  let da = r.below(8) as usize;
  let db = if same && r.below(3) != 0 { da } else { r.below(8) as usize };
  let ext = |r: &mut Rng| (0..r.below(4)).map(|_| { let s = r.below(11) as u32; let e = s + r.below(4) as u32; (s, e, r.below(3) as u8, r.below(5) as u8) }).collect::<Vec<_>>();
  let ea = ext(r);
  let eb = if same && r.below(3) != 0 { ea.iter().map(|&(s, e, k, _)| (s, e, k, r.below(5) as u8)).collect() } else { ext(r) };
  Case { ka, da, kb, db, oa: (0..r.below(3)).map(|_| r.below(8) as u8).collect(), ob: (0..r.below(3)).map(|_| r.below(8) as u8).collect(), ea, eb }
}
fn fmt(c: &Case) -> String {
  let e = |v: &Vec<(u32, u32, u8, u8)>| v.iter().map(|t| format!("{}.{}.{}.{}", t.0, t.1, t.2, t.3)).collect::<Vec<_>>().join("_");
  let o = |v: &Vec<u8>| v.iter().map(|x| x.to_string()).collect::<Vec<_>>().join("_");
  format!("{}:{}:{}:{}:{}:{}:{}:{}", c.ka, c.da, c.kb, c.db, o(&c.oa), o(&c.ob), e(&c.ea), e(&c.eb))
}
fn parse(w: &str) -> Case {
  let f: Vec<&str> = w.split(':').collect();
  let o = |s: &str| s.split('_').filter(|x| !x.is_empty()).map(|x| x.parse().unwrap()).collect::<Vec<u8>>();
  let e = |s: &str| s.split('_').filter(|x| !x.is_empty()).map(|t| { let q: Vec<u32> = t.split('.').map(|x| x.parse().unwrap()).collect(); (q[0], q[1], q[2] as u8, q[3] as u8) }).collect::<Vec<_>>();
  Case { ka: f[0].parse().unwrap(), da: f[1].parse().unwrap(), kb: f[2].parse().unwrap(), db: f[3].parse().unwrap(), oa: o(f[4]), ob: o(f[5]), ea: e(f[6]), eb: e(f[7]) }
}
pub fn search(args: &[String]) -> i32 {
  panic::set_hook(Box::new(|_| {}));
  let seed: u64 = args.first().and_then(|s| s.parse().ok()).unwrap_or(1);
  let budget: u64 = args.get(1).and_then(|s| s.parse().ok()).unwrap_or(100_000);
  let mut r = Rng(seed.wrapping_mul(0x9E3779B97F4A7C15) | 1);
  for i in 0..budget {
    let c = gen(&mut r);
    if let Some(d) = check(&c) {
      println!("WITNESS kind=eqhash input={}", fmt(&c));
      println!("DETAIL {d} (observers on a: {:?}, on b: {:?})", c.oa, c.ob);
      println!("TRIED {}", i + 1);
      return 1;
    }
  }
  println!("NO-WITNESS tried={budget}");
  0
}
pub fn replay(w: &str) -> i32 {
  panic::set_hook(Box::new(|_| {}));
  let c = parse(w);
  match check(&c) { Some(d) => { println!("REPRODUCED {d}"); 1 } None => { println!("NOT-REPRODUCED"); 0 } }
}
