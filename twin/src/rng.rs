pub struct Rng(pub u64);
impl Rng {
  pub fn next(&mut self) -> u64 { self.0 ^= self.0 << 13; self.0 ^= self.0 >> 7; self.0 ^= self.0 << 17; self.0 }
  pub fn below(&mut self, n: u64) -> u64 { self.next() % n }
  pub fn pick<T: Copy>(&mut self, xs: &[T]) -> T { xs[self.below(xs.len() as u64) as usize] }
}
