//! executable twins of spec/codec_spec.rs + spec/lines_spec.rs and the differential search for the codec
use std::panic;

use crate::encoder::{create_encoder, MappingsEncoder};
use crate::rng::Rng;
use crate::{Mapping, OriginalLocation};
use rspack_sources::{decode_mappings, encode_mappings, SourceMap};

// ---------- spec twins ----------
fn b64(i: u64) -> u8 {
  (if i < 26 { 65 + i } else if i < 52 { 97 + i - 26 } else if i < 62 { 48 + i - 52 } else if i == 62 { 43 } else { 47 }) as u8
}
fn tbl(c: u8) -> u8 {
  if (65..=90).contains(&c) { c - 65 } else if (97..=122).contains(&c) { c - 97 + 26 } else if (48..=57).contains(&c) { c - 48 + 52 }
  else if c == 43 { 62 } else if c == 47 { 63 } else if c == 44 { 0x40 } else if c == 59 { 0x41 } else { 0x42 }
}
fn vlq_digits(mut n: u64, out: &mut Vec<u8>) {
  loop {
    if n / 32 > 0 { out.push(b64(n % 32 + 32)); n /= 32; } else { out.push(b64(n % 32)); break; }
  }
}
fn zz(a: i64, b: i64) -> u64 { if a >= b { (2 * (a - b)) as u64 } else { (2 * (b - a) + 1) as u64 } }
fn fld(a: u32, b: u32, out: &mut Vec<u8>) { vlq_digits(zz(a as i64, b as i64), out) }

#[derive(Clone, Copy, Debug)]
struct ES { line: u32, col: u32, ol: u32, oc: u32, si: u32, ni: u32, am: bool, an: bool, init: bool }
fn es0() -> ES { ES { line: 1, col: 0, ol: 1, oc: 0, si: 0, ni: 0, am: false, an: false, init: true } }
fn dropped(s: &ES, m: &Mapping) -> bool {
  if s.am && s.line == m.generated_line {
    match &m.original {
      Some(o) => o.source_index == s.si && o.original_line == s.ol && o.original_column == s.oc && !s.an && o.name_index.is_none(),
      None => false,
    }
  } else { m.original.is_none() }
}
fn enc_step(s: &mut ES, m: &Mapping, out: &mut Vec<u8>) {
  if dropped(s, m) { return; }
  let col0 = if s.line < m.generated_line { 0 } else { s.col };
  if s.line < m.generated_line { for _ in 0..(m.generated_line - s.line) { out.push(b';'); } } else if s.init { } else { out.push(b','); }
  fld(m.generated_column, col0, out);
  if let Some(o) = &m.original {
    fld(o.source_index, s.si, out); fld(o.original_line, s.ol, out); fld(o.original_column, s.oc, out);
    if let Some(n) = o.name_index { fld(n, s.ni, out); }
  }
  if s.line < m.generated_line { s.line = m.generated_line; }
  s.col = m.generated_column; s.init = false;
  match &m.original {
    Some(o) => { s.am = true; s.si = o.source_index; s.ol = o.original_line; s.oc = o.original_column;
                 if let Some(n) = o.name_index { s.ni = n; } s.an = o.name_index.is_some(); }
    None => { s.am = false; }
  }
}
pub fn ref_encode(ms: &[Mapping]) -> Vec<u8> { let mut s = es0(); let mut out = vec![]; for m in ms { enc_step(&mut s, m, &mut out); } out }
pub fn ref_kept(ms: &[Mapping]) -> Vec<Mapping> {
  let mut s = es0(); let mut out = vec![]; let mut sink = vec![];
  for m in ms { if !dropped(&s, m) { out.push(m.clone()); } enc_step(&mut s, m, &mut sink); } out
}
// lines-only writer through the full writer's spec (spec/lines_spec.rs)
pub fn ref_lines(ms: &[Mapping]) -> Vec<u8> {
  let (mut lw, mut line, mut si, mut ol) = (0u32, 1u32, 0u32, 1u32);
  let mut out = vec![];
  for m in ms {
    let Some(o) = &m.original else { continue };
    if lw == m.generated_line { continue; }
    let mut e = ES { line, col: 0, ol, oc: 0, si, ni: 0, am: lw != 0, an: false, init: lw == 0 };
    let lm = Mapping { generated_line: m.generated_line, generated_column: 0,
      original: Some(OriginalLocation { source_index: o.source_index, original_line: o.original_line, original_column: 0, name_index: None }) };
    enc_step(&mut e, &lm, &mut out);
    lw = m.generated_line; line = m.generated_line; si = o.source_index; ol = o.original_line;
  }
  out
}
pub fn ref_lseq(ms: &[Mapping]) -> Vec<Mapping> {
  let mut lw = 0u32; let mut out = vec![];
  for m in ms {
    let Some(o) = &m.original else { continue };
    if lw == m.generated_line { continue; }
    out.push(Mapping { generated_line: m.generated_line, generated_column: 0,
      original: Some(OriginalLocation { source_index: o.source_index, original_line: o.original_line, original_column: 0, name_index: None }) });
    lw = m.generated_line;
  }
  out
}

// byte-level v3 reader (dec_byte / dec_all)
pub fn ref_decode(bytes: &[u8]) -> Vec<Mapping> {
  let mut d = [0u32, 0, 1, 0, 0]; let (mut pos, mut val, mut vpos, mut line) = (0usize, 0i64, 0usize, 1u32);
  let mut out = vec![];
  let emit = |pos: usize, line: u32, d: &[u32; 5], out: &mut Vec<Mapping>| {
    if pos == 1 { out.push(Mapping { generated_line: line, generated_column: d[0], original: None }); }
    else if pos == 4 || pos == 5 {
      out.push(Mapping { generated_line: line, generated_column: d[0], original: Some(OriginalLocation {
        source_index: d[1], original_line: d[2], original_column: d[3], name_index: if pos == 5 { Some(d[4]) } else { None } }) });
    }
  };
  for &c in bytes {
    let v = tbl(c);
    if v == 0x42 { continue; }
    if v & 0x40 != 0 {
      emit(pos, line, &d, &mut out);
      pos = 0;
      if v == 0x41 { line = line.wrapping_add(1); d[0] = 0; }
    } else if v & 0x20 == 0 {
      let cv = if vpos < 64 { val | ((v as i64) << vpos) } else { val };
      let fv = if cv & 1 != 0 { (cv >> 1).wrapping_neg() } else { cv >> 1 };
      if pos < 5 { d[pos] = (d[pos] as i64).wrapping_add(fv) as u32; }
      pos += 1; val = 0; vpos = 0;
    } else if vpos < 64 { val |= ((v & 0x1f) as i64) << vpos; vpos += 5; }
  }
  emit(pos, line, &d, &mut out);
  out
}

// ---------- witness text format ----------
pub fn fmt_ms(ms: &[Mapping]) -> String {
  ms.iter().map(|m| match &m.original {
    None => format!("{} {}", m.generated_line, m.generated_column),
    Some(o) => match o.name_index {
      None => format!("{} {} {} {} {}", m.generated_line, m.generated_column, o.source_index, o.original_line, o.original_column),
      Some(n) => format!("{} {} {} {} {} {}", m.generated_line, m.generated_column, o.source_index, o.original_line, o.original_column, n),
    },
  }).collect::<Vec<_>>().join(" | ")
}
pub fn parse_ms(s: &str) -> Vec<Mapping> {
  s.split('|').filter(|p| !p.trim().is_empty()).map(|p| {
    let v: Vec<u32> = p.split_whitespace().map(|x| x.parse().unwrap()).collect();
    Mapping { generated_line: v[0], generated_column: v[1], original: if v.len() >= 5 {
      Some(OriginalLocation { source_index: v[2], original_line: v[3], original_column: v[4], name_index: v.get(5).copied() }) } else { None } }
  }).collect()
}

// ---------- running the real code ----------
fn real_encode(ms: &[Mapping], lines: bool) -> Result<Vec<u8>, String> {
  let ms = ms.to_vec();
  panic::catch_unwind(move || {
    if lines {
      let mut e = create_encoder(false);
      for m in &ms { e.encode(m); }
      e.drain().into_bytes()
    } else {
      encode_mappings(ms.into_iter()).into_bytes()
    }
  }).map_err(|e| format!("panic: {}", e.downcast_ref::<String>().cloned().or_else(|| e.downcast_ref::<&str>().map(|s| s.to_string())).unwrap_or_default()))
}
fn real_decode(s: &str) -> Result<Vec<Mapping>, String> {
  let s = s.to_string();
  panic::catch_unwind(move || { let sm = SourceMap::new(s, Vec::<String>::new(), Vec::<String>::new(), Vec::<String>::new()); decode_mappings(&sm).collect::<Vec<_>>() })
    .map_err(|e| format!("panic: {}", e.downcast_ref::<String>().cloned().or_else(|| e.downcast_ref::<&str>().map(|s| s.to_string())).unwrap_or_default()))
}
fn wire_ok(bs: &[u8]) -> bool { bs.iter().all(|&b| tbl(b) != 0x42) }

/// what counts as a failing input: "bytes" (C12: output differs from the spec), "wire" (C11/C19: output contains a byte
/// outside the base64-VLQ alphabet / non-ASCII), "panic" (C17: the real code panics)
static CRIT: std::sync::OnceLock<String> = std::sync::OnceLock::new();
pub fn set_crit(c: &str) { let _ = CRIT.set(c.to_string()); }
fn crit() -> &'static str { CRIT.get().map(|s| s.as_str()).unwrap_or("bytes") }

/// None = agrees; Some(description) = disagreement
fn check_enc(ms: &[Mapping], lines: bool) -> Option<String> {
  let want = if lines { ref_lines(ms) } else { ref_encode(ms) };
  match real_encode(ms, lines) {
    Err(p) => if crit() == "wire" { None } else { Some(format!("real encoder panicked ({p}); spec gives {:?}", String::from_utf8_lossy(&want))) },
    Ok(got) => {
      if crit() == "panic" { return None; }
      if crit() == "wire" {
        return if wire_ok(&got) { None } else { Some(format!("real output {:?} contains bytes outside the base64-VLQ alphabet (spec: {:?})", String::from_utf8_lossy(&got), String::from_utf8_lossy(&want))) };
      }
      if got != want {
        let back = ref_decode(&got);
        let exp = if lines { ref_lseq(ms) } else { ref_kept(ms) };
        Some(format!("real output {:?} != spec {:?}; decoding the real output gives [{}], the property demands [{}]{}{}",
          String::from_utf8_lossy(&got), String::from_utf8_lossy(&want), fmt_ms(&back), fmt_ms(&exp),
          if back != exp { " (round trip broken)" } else { " (same segments, different spelling: re-encode idempotence / exact format broken)" },
          if !wire_ok(&got) { "; output contains bytes outside the base64-VLQ alphabet" } else { "" }))
      } else { None }
    }
  }
}
/// C12's decoder clause is about WELL-FORMED strings: only base64 characters, ',' and ';'; every segment has 0, 1, 4 or 5
/// fields; VLQs of at most 12 digits (redundant continuation digits are allowed); running values stay in [0, 2^31).
/// What the decoder does on anything else is not constrained by the property (only by C17: no panic).
fn well_formed(s: &str) -> bool {
  let mut d: [i64; 5] = [0, 0, 1, 0, 0];
  for line in s.split(';') {
    d[0] = 0;
    for seg in line.split(',') {
      let mut fields = 0usize; let mut digits = 0usize; let mut val: i64 = 0; let mut open = false;
      for &c in seg.as_bytes() {
        let v = tbl(c);
        if v >= 0x40 { return false; }
        digits += 1;
        if digits > 12 { return false; }
        val |= ((v & 0x1f) as i64) << (5 * (digits - 1));
        open = true;
        if v & 0x20 == 0 {
          let fv = if val & 1 != 0 { -(val >> 1) } else { val >> 1 };
          if fields >= 5 { return false; }
          d[fields] += fv;
          if d[fields] < 0 || d[fields] >= (1 << 31) { return false; }
          fields += 1; digits = 0; val = 0; open = false;
        }
      }
      if open { return false; }
      if !(fields == 0 || fields == 1 || fields == 4 || fields == 5) { return false; }
    }
  }
  true
}

fn check_dec(s: &str) -> Option<String> {
  if crit() == "bytes" && !well_formed(s) { return None; }
  let want = ref_decode(s.as_bytes());
  match real_decode(s) {
    Err(p) => Some(format!("real decoder panicked ({p}); the format defines [{}]", fmt_ms(&want))),
    Ok(got) => if crit() == "bytes" && got != want { Some(format!("real decoder gives [{}], the format defines [{}]", fmt_ms(&got), fmt_ms(&want))) } else { None },
  }
}

const VALS: [u32; 14] = [0, 1, 2, 3, 15, 16, 31, 32, 33, 1023, 1024, 32768, (1 << 29) + 7, (1 << 30) - 1];
fn gen_ms(r: &mut Rng, maxlen: u64) -> Vec<Mapping> {
  let n = 1 + r.below(maxlen);
  let mut line = 1u32; let mut col = 0u32;
  let small = r.below(2) == 0;
  let mut out = vec![];
  for _ in 0..n {
    let k = r.below(6);
    if k == 0 { line = (line + 1 + (r.below(3) as u32)).min((1 << 30) - 1); col = 0; }
    else if k == 1 { line += 1; col = 0; }
    // the panic criterion (C17) ranges over all of u32 ("wild" maps); the byte-level spec only over the C12 domain (< 2^30)
    let wild = crit() == "panic";
    let v = |r: &mut Rng| if small { r.below(4) as u32 } else if wild && r.below(3) == 0 { r.pick(&[u32::MAX, u32::MAX - 1, 1 << 31, (1 << 31) - 1, 1 << 30]) } else { r.pick(&VALS) };
    // C12/C11 quantify over sequences sorted by generated position: within a line the column never goes back
    // (the panic criterion of C17 also tries unsorted columns)
    if r.below(3) != 0 || !wild { col = col.saturating_add(v(r) % 50).min((1 << 30) - 1); } else { col = v(r); }
    let original = match r.below(4) {
      0 => None,
      1 => Some(OriginalLocation { source_index: v(r), original_line: v(r).max(1), original_column: v(r), name_index: Some(v(r)) }),
      _ => Some(OriginalLocation { source_index: v(r), original_line: v(r).max(1), original_column: v(r), name_index: None }),
    };
    out.push(Mapping { generated_line: line, generated_column: col, original });
  }
  out
}

fn quiet() { panic::set_hook(Box::new(|_| {})); }

pub fn search_enc(args: &[String], lines: bool) -> i32 {
  quiet();
  let seed: u64 = args.first().and_then(|s| s.parse().ok()).unwrap_or(1);
  let budget: u64 = args.get(1).and_then(|s| s.parse().ok()).unwrap_or(200_000);
  let mut tried = 0u64;
  // exhaustive small scope: up to 3 segments over a tiny value set
  let tiny: [u32; 3] = [0, 1, 17];
  let mut segs: Vec<Mapping> = vec![];
  for &l in &[1u32, 2, 3] { for &c in &tiny {
    segs.push(Mapping { generated_line: l, generated_column: c, original: None });
    for &si in &[0u32, 1] { for &ol in &[1u32, 2] { for &oc in &[0u32, 1] { for ni in [None, Some(0u32), Some(1)] {
      segs.push(Mapping { generated_line: l, generated_column: c, original: Some(OriginalLocation { source_index: si, original_line: ol, original_column: oc, name_index: ni }) });
    }}}}
  }}
  let mut best: Option<(Vec<Mapping>, String)> = None;
  'outer: for a in 0..segs.len() {
    let one = vec![segs[a].clone()];
    tried += 1;
    if let Some(d) = check_enc(&one, lines) { best = Some((one, d)); break 'outer; }
    for b in 0..segs.len() {
      if segs[b].generated_line < segs[a].generated_line { continue; }
      if segs[b].generated_line == segs[a].generated_line && segs[b].generated_column < segs[a].generated_column { continue; }
      let two = vec![segs[a].clone(), segs[b].clone()];
      tried += 1;
      if let Some(d) = check_enc(&two, lines) { best = Some((two, d)); break 'outer; }
    }
  }
  if best.is_none() {
    let mut r = Rng(seed.wrapping_mul(0x9E3779B97F4A7C15) | 1);
    for i in 0..budget {
      let ms = gen_ms(&mut r, if i % 4 == 0 { 12 } else { 4 });
      tried += 1;
      if let Some(d) = check_enc(&ms, lines) { best = Some((ms, d)); break; }
    }
  }
  match best {
    Some((mut ms, mut d)) => {
      // shrink: drop segments while it still fails
      let mut i = 0;
      while i < ms.len() && ms.len() > 1 {
        let mut t = ms.clone(); t.remove(i);
        if let Some(d2) = check_enc(&t, lines) { ms = t; d = d2; } else { i += 1; }
      }
      println!("WITNESS kind={} input={}", if lines { "lines" } else { "enc" }, fmt_ms(&ms));
      println!("DETAIL {d}");
      println!("TRIED {tried}");
      1
    }
    None => { println!("NO-WITNESS tried={tried}"); 0 }
  }
}

pub fn replay_enc(w: &str, lines: bool) -> i32 {
  quiet();
  let ms = parse_ms(w);
  match check_enc(&ms, lines) { Some(d) => { println!("REPRODUCED input={} : {d}", fmt_ms(&ms)); 1 } None => { println!("NOT-REPRODUCED input={}", fmt_ms(&ms)); 0 } }
}

const ALPHA: &[u8] = b"ACDEgh/+9z,;!";
pub fn search_dec(args: &[String]) -> i32 {
  quiet();
  let seed: u64 = args.first().and_then(|s| s.parse().ok()).unwrap_or(1);
  let budget: u64 = args.get(1).and_then(|s| s.parse().ok()).unwrap_or(200_000);
  let maxlen: usize = args.get(2).and_then(|s| s.parse().ok()).unwrap_or(5);
  let mut tried = 0u64;
  let mut found: Option<(String, String)> = None;
  // long continuation runs (shift / accumulator limits)
  for k in 0..24usize {
    for tail in ["A", "B", "/", "+"] {
      let s: String = "g".repeat(k) + tail;
      tried += 1;
      if found.is_none() { if let Some(d) = check_dec(&s) { found = Some((s, d)); } }
      let s2: String = "/".repeat(k) + tail + ";AAAA";
      tried += 1;
      if found.is_none() { if let Some(d) = check_dec(&s2) { found = Some((s2, d)); } }
    }
  }
  // exhaustive over ALPHA^<=maxlen
  let mut idx = vec![0usize; 0];
  'outer: for len in 0..=(if found.is_some() { 0 } else { maxlen }) {
    if found.is_some() { break; }
    idx.clear(); idx.resize(len, 0);
    loop {
      let s: String = idx.iter().map(|&i| ALPHA[i] as char).collect();
      tried += 1;
      if let Some(d) = check_dec(&s) { found = Some((s, d)); break 'outer; }
      let mut k = 0;
      while k < len { idx[k] += 1; if idx[k] < ALPHA.len() { break; } idx[k] = 0; k += 1; }
      if k == len { break; }
    }
  }
  if found.is_none() {
    let mut r = Rng(seed.wrapping_mul(0x9E3779B97F4A7C15) | 1);
    let all: Vec<u8> = (b'A'..=b'Z').chain(b'a'..=b'z').chain(b'0'..=b'9').chain([b'+', b'/', b',', b';', b' ', b'\n']).collect();
    for i in 0..budget {
      let n = 1 + r.below(if i % 8 == 0 { 40 } else { 12 });
      let s: String = if i % 2 == 0 {
        // grammar-directed: segments of 0/1/4/5 VLQs, each with 0-3 continuation digits (also redundant ones)
        let mut t = String::new();
        for k in 0..(1 + r.below(6)) {
          if k > 0 { t.push(if r.below(4) == 0 { ';' } else { ',' }); }
          for _ in 0..r.pick(&[0usize, 1, 1, 4, 4, 5]) {
            for _ in 0..r.below(4) { t.push(r.pick(b"ghijklmnopqrstuvwxyz0123456789+/") as char); }
            t.push(r.pick(b"ABCDEFGHIJKLMNOPQRSTUVWXYZabcdef") as char);
          }
        }
        t
      } else {
        (0..n).map(|_| match r.below(10) { 0 => ',', 1 => ';', 2..=4 => r.pick(b"ghijklmnopqrstuvwxyz0123456789+/") as char, _ => r.pick(&all) as char }).collect()
      };
      tried += 1;
      if let Some(d) = check_dec(&s) { found = Some((s, d)); break; }
    }
  }
  match found {
    Some((s, d)) => { println!("WITNESS kind=dec input={s:?}"); println!("DETAIL {d}"); println!("TRIED {tried}"); 1 }
    None => { println!("NO-WITNESS tried={tried}"); 0 }
  }
}
pub fn replay_dec(w: &str) -> i32 {
  quiet();
  match check_dec(w) { Some(d) => { println!("REPRODUCED input={w:?} : {d}"); 1 } None => { println!("NOT-REPRODUCED input={w:?}"); 0 } }
}
