//! twin of spec/splice_spec.rs (the reference replacement model of C05) and a differential search against the real
//! ReplaceSource through its public API, with observer calls interleaved between mutating calls.
use std::panic;

use crate::rng::Rng;
use rspack_sources::{MapOptions, RawStringSource, ReplaceSource, ReplacementEnforce, Source};

#[derive(Clone, Debug)]
pub struct Op { start: u32, end: u32, enforce: u8, content: String, observe: u8 }

fn enf(k: u8) -> ReplacementEnforce { match k { 0 => ReplacementEnforce::Pre, 1 => ReplacementEnforce::Normal, _ => ReplacementEnforce::Post } }

/// reference: stable sort by (start, end, enforce), then splice
pub fn ref_source(text: &str, ops: &[Op]) -> Vec<u8> {
  let inner = text.as_bytes();
  let mut idx: Vec<usize> = (0..ops.len()).collect();
  idx.sort_by_key(|&i| (ops[i].start, ops[i].end, ops[i].enforce, i));
  let mut out = vec![];
  let mut pos = 0usize;
  for i in idx {
    let r = &ops[i];
    if pos < r.start as usize { out.extend_from_slice(&inner[pos..(r.start as usize).min(inner.len())]); }
    out.extend_from_slice(r.content.as_bytes());
    pos = pos.max(r.end as usize).min(inner.len());
  }
  out.extend_from_slice(&inner[pos..]);
  out
}

fn apply(s: &mut ReplaceSource<RawStringSource>, o: &Op) {
  if o.enforce == 1 && o.observe & 8 == 0 {
    if o.start == o.end && o.observe & 16 != 0 { s.insert(o.start, &o.content, None); } else { s.replace(o.start, o.end, &o.content, None); }
  } else if o.start == o.end && o.observe & 16 != 0 { s.insert_with_enforce(o.start, &o.content, None, enf(o.enforce)); }
  else { s.replace_with_enforce(o.start, o.end, &o.content, None, enf(o.enforce)); }
}
fn views(s: &ReplaceSource<RawStringSource>) -> Vec<u8> {
  let src = s.source().as_bytes().to_vec();
  // the other content views must agree with source() (rope() renders to it, size() is its length, buffer() its bytes)
  let rope = s.rope().to_string().into_bytes();
  if rope != src { return [b"<rope() differs from source(): ".to_vec(), rope, b">".to_vec()].concat(); }
  if s.size() != src.len() { return b"<size() differs from source().len()>".to_vec(); }
  if s.buffer().as_ref() != &src[..] { return b"<buffer() differs from source()>".to_vec(); }
  src
}
/// runs the history on the real crate; besides the value itself a CLONE is taken at the first observer #5/#7, and
/// from then on calls with bit 32 set in `observe` go to the clone.  Returns (text of the value, text of the clone).
fn real_source(text: &str, ops: &[Op]) -> Result<(Vec<u8>, Option<Vec<u8>>), String> {
  let text = text.to_string();
  let ops = ops.to_vec();
  panic::catch_unwind(move || {
    let mut s = ReplaceSource::new(RawStringSource::from(text));
    let mut t: Option<ReplaceSource<RawStringSource>> = None;
    for o in &ops {
      let on_clone = t.is_some() && o.observe & 32 != 0;
      if on_clone { apply(t.as_mut().unwrap(), o); } else { apply(&mut s, o); }
      let cur: &ReplaceSource<RawStringSource> = if on_clone { t.as_ref().unwrap() } else { &s };
      // observers between mutating calls: must not influence any later answer
      match o.observe & 7 {
        1 => { let _ = cur.source(); }
        2 => { let _ = cur.size(); }
        3 => { let _ = cur.map(&MapOptions::default()); }
        4 => { use std::hash::{Hash, Hasher}; let mut h = std::collections::hash_map::DefaultHasher::new(); cur.hash(&mut h); let _ = h.finish(); }
        5 => { if t.is_none() { t = Some(s.clone()); } else { s = s.clone(); } }
        6 => { let c = cur.clone(); let _ = c.source(); }
        7 => { let _ = s.source(); if t.is_none() { t = Some(s.clone()); } else { s = s.clone(); } }
        _ => {}
      }
    }
    // observe the value, then the clone, then the value again: answers must not move
    let first = views(&s);
    let tc = t.as_ref().map(views);
    let again = views(&s);
    if again != first { return (b"<source() of an unchanged value moved after its clone was observed>".to_vec(), tc); }
    (first, tc)
  }).map_err(|e| format!("panic: {}", e.downcast_ref::<String>().cloned().or_else(|| e.downcast_ref::<&str>().map(|s| s.to_string())).unwrap_or_default()))
}
/// the histories of the value and of its clone, as the reference model sees them
fn split_history(ops: &[Op]) -> (Vec<Op>, Option<Vec<Op>>) {
  let mut a: Vec<Op> = vec![];
  let mut b: Option<Vec<Op>> = None;
  for o in ops {
    let on_clone = b.is_some() && o.observe & 32 != 0;
    if on_clone { b.as_mut().unwrap().push(o.clone()); } else { a.push(o.clone()); }
    if b.is_none() && matches!(o.observe & 7, 5 | 7) { b = Some(a.clone()); }
  }
  (a, b)
}

fn check(text: &str, ops: &[Op]) -> Option<String> {
  let (ha, hb) = split_history(ops);
  let want = ref_source(text, &ha);
  let want_clone = hb.as_ref().map(|h| ref_source(text, h));
  match real_source(text, ops) {
    Err(p) => Some(format!("real ReplaceSource panicked ({p}); the model gives {:?}", String::from_utf8_lossy(&want))),
    Ok((got, got_clone)) => {
      if got != want { return Some(format!("source() = {:?}, the reference model gives {:?}", String::from_utf8_lossy(&got), String::from_utf8_lossy(&want))); }
      if let (Some(g), Some(w)) = (got_clone, want_clone) {
        if g != w { return Some(format!("source() of the CLONE = {:?}, the reference model gives {:?}", String::from_utf8_lossy(&g), String::from_utf8_lossy(&w))); }
      }
      None
    }
  }
}

fn hex(s: &str) -> String { s.bytes().map(|b| format!("{b:02x}")).collect() }
fn unhex(s: &str) -> String { String::from_utf8((0..s.len() / 2).map(|i| u8::from_str_radix(&s[2 * i..2 * i + 2], 16).unwrap()).collect()).unwrap() }
fn fmt(text: &str, ops: &[Op]) -> String {
  format!("text={} ops={}", hex(text), ops.iter().map(|o| format!("{}:{}:{}:{}:{}", o.start, o.end, o.enforce, hex(&o.content), o.observe)).collect::<Vec<_>>().join(","))
}
fn parse(w: &str) -> (String, Vec<Op>) {
  let mut text = String::new(); let mut ops = vec![];
  for part in w.split_whitespace() {
    if let Some(t) = part.strip_prefix("text=") { text = unhex(t); }
    if let Some(o) = part.strip_prefix("ops=") {
      for x in o.split(',').filter(|x| !x.is_empty()) {
        let f: Vec<&str> = x.split(':').collect();
        ops.push(Op { start: f[0].parse().unwrap(), end: f[1].parse().unwrap(), enforce: f[2].parse().unwrap(), content: unhex(f[3]), observe: f[4].parse().unwrap() });
      }
    }
  }
  (text, ops)
}
fn human(text: &str, ops: &[Op]) -> String {
  format!("inner={text:?}; calls: {}", ops.iter().map(|o| format!("replace_with_enforce({}, {}, {:?}, {:?}) then observer#{}", o.start, o.end, o.content, enf(o.enforce), o.observe & 7)).collect::<Vec<_>>().join("; "))
}

const TEXTS: [&str; 8] = ["", "a", "abc", "ab\ncd", "h\u{e9}llo", "\u{20ac}x\u{1F600}y", "line1\nline2\nline3", "0123456789"];
pub fn search(args: &[String]) -> i32 {
  panic::set_hook(Box::new(|_| {}));
  let seed: u64 = args.first().and_then(|s| s.parse().ok()).unwrap_or(1);
  let budget: u64 = args.get(1).and_then(|s| s.parse().ok()).unwrap_or(100_000);
  let mut r = Rng(seed.wrapping_mul(0x9E3779B97F4A7C15) | 1);
  let mut tried = 0u64;
  let mut found: Option<(String, Vec<Op>, String)> = None;
  for _ in 0..budget {
    let text = r.pick(&TEXTS).to_string();
    let mut bounds: Vec<u32> = (0..=text.len()).filter(|&i| text.is_char_boundary(i)).map(|i| i as u32).collect();
    bounds.push(text.len() as u32 + 1); bounds.push(text.len() as u32 + 7); bounds.push(1000);
    let big = tried % 16 == 15;
    let n = if big { 24 + r.below(80) } else { 1 + r.below(5) };
    let mut ops = vec![];
    if big {
      // many replacements sharing few keys, in arbitrary order: the tie order (insertion order) must survive the sort
      let keys: Vec<(u32, u32)> = (0..2 + r.below(3)).map(|_| { let a = r.pick(&bounds); (a, a) }).collect();
      for i in 0..n {
        let (s, e) = r.pick(&keys);
        ops.push(Op { start: s, end: e, enforce: 1, content: format!("<{i}>"), observe: if r.below(8) == 0 { 1 } else { 0 } });
      }
    }
    for _ in 0..(if big { 0 } else { n }) {
      let a = r.pick(&bounds); let b = r.pick(&bounds);
      let (s, e) = if a <= b { (a, b) } else { (b, a) };
      let (s, e) = if r.below(3) == 0 { (s, s) } else { (s, e) };
      ops.push(Op { start: s, end: e, enforce: r.below(3) as u8, content: r.pick(&["", "X", "YZ", "\n", "\u{e9}"]).to_string(), observe: r.below(64) as u8 });
    }
    tried += 1;
    if let Some(d) = check(&text, &ops) { found = Some((text, ops, d)); break; }
  }
  match found {
    Some((text, mut ops, mut d)) => {
      let mut i = 0;
      if ops.len() <= 12 { while i < ops.len() && ops.len() > 1 { let mut t = ops.clone(); t.remove(i); if let Some(d2) = check(&text, &t) { ops = t; d = d2; } else { i += 1; } } }
      println!("WITNESS kind=replace input={}", fmt(&text, &ops));
      println!("DETAIL {} :: {d}", human(&text, &ops));
      println!("TRIED {tried}");
      1
    }
    None => { println!("NO-WITNESS tried={tried}"); 0 }
  }
}
pub fn replay(w: &str) -> i32 {
  panic::set_hook(Box::new(|_| {}));
  let (text, ops) = parse(w);
  match check(&text, &ops) { Some(d) => { println!("REPRODUCED {} :: {d}", human(&text, &ops)); 1 } None => { println!("NOT-REPRODUCED {}", human(&text, &ops)); 0 } }
}
