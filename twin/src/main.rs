//! Executable twin of the Verus spec functions (spec/codec_spec.rs, spec/lines_spec.rs, spec/splice_spec.rs) and a
//! differential search / replay driver against the real crate.  Used only to find and replay concrete
//! failing inputs after a verifier obligation failed; it never decides a property.
#![allow(dead_code)]
pub use rspack_sources::{Mapping, OriginalLocation};

// the real encoder/decoder files, compiled unmodified (gives access to the crate-private lines-only encoder)
#[path = "@REPO@/src/encoder.rs"]
#[allow(unsafe_code, dead_code, missing_docs)]
mod encoder;

mod codec;
mod eqhash;
mod replace;
mod rope;
mod views;
mod rng;
mod wildmap;

fn main() {
  let args: Vec<String> = std::env::args().collect();
  let mode = args.get(1).map(|s| s.as_str()).unwrap_or("");
  if let Ok(c) = std::env::var("TWIN_CRIT") { codec::set_crit(&c); }
  let code = match mode {
    "search-enc" => codec::search_enc(&args[2..], false),
    "search-lines" => codec::search_enc(&args[2..], true),
    "search-dec" => codec::search_dec(&args[2..]),
    "replay-enc" => codec::replay_enc(&args[2], false),
    "replay-lines" => codec::replay_enc(&args[2], true),
    "replay-dec" => codec::replay_dec(&args[2]),
    "search-eqhash" => eqhash::search(&args[2..]),
    "replay-eqhash" => eqhash::replay(&args[2]),
    "search-ropedegenerate" => wildmap::search_rope_degenerate(&args[2..]),
    "replay-ropedegenerate" => wildmap::replay_rope_degenerate(&args[2]),
    "search-ropebounds" => wildmap::search_rope_bounds(&args[2..]),
    "replay-ropebounds" => wildmap::replay_rope_bounds(&args[2]),
    "search-tokens" => wildmap::search_tokens(&args[2..]),
    "replay-tokens" => wildmap::replay_tokens(&args[2]),
    "search-wildmap" => wildmap::search(&args[2..]),
    "replay-wildmap" => wildmap::replay(&args[2]),
    "search-rope" => rope::search(&args[2..]),
    "replay-rope" => rope::replay(&args[2]),
    "search-views" => views::search(&args[2..]),
    "replay-views" => views::replay(&args[2]),
    "search-replace" => replace::search(&args[2..]),
    "replay-replace" => replace::replay(&args[2]),
    _ => { eprintln!("usage: twin search-enc|search-lines|search-dec|search-replace <seed> <budget> | replay-* <witness>"); 2 }
  };
  std::process::exit(code);
}
