//! Rope against the flat string it denotes (spec/rope_spec.rs: `bytes()` = concatenation of the pieces): random
//! programs over a stack of ropes (new / from / from_iter / add / append / clone / byte_slice), every observation
//! compared with a `String` model, slices observed again one level down (wrong piece offsets only show on the second
//! lookup).  Criteria: "any" (wrong answer, panic or abort), "panic" (panic or abort), "unsafe" (process abort: the
//! debug build checks the preconditions of get_unchecked; or a wrong answer from byte_slice_unchecked on a valid range).
use crate::rng::Rng;
use rspack_sources::Rope;
use std::ops::Bound;
use std::panic::{catch_unwind, AssertUnwindSafe};

static CATCH: std::sync::atomic::AtomicBool = std::sync::atomic::AtomicBool::new(false);
fn catching() -> bool { CATCH.load(std::sync::atomic::Ordering::Relaxed) }
const PIECES: [&str; 9] = ["", "a", "bc", "é", "日本", "x\ny", "😀", "def", "\n"];

#[derive(Clone, Debug)]
enum Op { New, From(usize), FromIter(Vec<usize>), Add(usize, usize), Append(usize, usize), Clone(usize), Slice(usize, usize, usize) }

fn enc(p: &[Op]) -> String {
  p.iter().map(|o| match o {
    Op::New => "N".to_string(),
    Op::From(k) => format!("F{k}"),
    Op::FromIter(v) => format!("I{}", v.iter().map(|x| x.to_string()).collect::<Vec<_>>().join(".")),
    Op::Add(r, k) => format!("A{r}.{k}"),
    Op::Append(r, q) => format!("P{r}.{q}"),
    Op::Clone(r) => format!("C{r}"),
    Op::Slice(r, a, b) => format!("S{r}.{a}.{b}"),
  }).collect::<Vec<_>>().join("_")
}
fn dec(s: &str) -> Vec<Op> {
  s.split('_').filter(|x| !x.is_empty()).map(|t| {
    let nums: Vec<usize> = t[1..].split('.').filter(|x| !x.is_empty()).map(|x| x.parse().unwrap()).collect();
    match &t[..1] {
      "N" => Op::New, "F" => Op::From(nums[0]), "I" => Op::FromIter(nums), "A" => Op::Add(nums[0], nums[1]),
      "P" => Op::Append(nums[0], nums[1]), "C" => Op::Clone(nums[0]), _ => Op::Slice(nums[0], nums[1], nums[2]),
    }
  }).collect()
}

fn obs_flat(r: &Rope, m: &str, unsafe_only: bool) -> Result<(), String> {
  if !unsafe_only {
    if r.len() != m.len() { return Err(format!("len() = {} but the text {:?} has {} bytes", r.len(), m, m.len())); }
    if r.is_empty() != m.is_empty() { return Err(format!("is_empty() = {} for text {:?}", r.is_empty(), m)); }
    if r.to_string() != m { return Err(format!("to_string() = {:?}, expected {:?}", r.to_string(), m)); }
    if &*r.to_bytes() != m.as_bytes() { return Err(format!("to_bytes() differs from the bytes of {:?}", m)); }
    if !(r == &Rope::from(m)) || !(*r == *m) || !(*r == m) { return Err(format!("rope is not equal to its own text {:?}", m)); }
    if r.char_indices().collect::<Vec<_>>() != m.char_indices().collect::<Vec<_>>() { return Err(format!("char_indices() = {:?} on text {:?}", r.char_indices().collect::<Vec<_>>(), m)); }
    for c in ['a', 'c', 'f', 'y', '\n', 'é', '本', '😀'] {
      if r.ends_with(c) != m.ends_with(c) { return Err(format!("ends_with({:?}) = {} on text {:?}", c, r.ends_with(c), m)); }
    }
    for t in ["", "a", "ab", "é", "\u{e8}", "x\ny", "bc"] {
      if (*r == *t) != (m == t) { return Err(format!("rope == {:?} is {} for text {:?}", t, *r == *t, m)); }
      if (*r == t) != (m == t) { return Err(format!("rope == &{:?} is {} for text {:?}", t, *r == t, m)); }
    }
  }
  if unsafe_only && !catching() { let _ = r.char_indices().count(); let _ = r.ends_with('a'); let _ = r.is_empty(); }
  for k in 0..=m.len() + 1 {
    if catching() { let _ = catch_unwind(AssertUnwindSafe(|| r.get_byte(k))); continue; }
    if unsafe_only { let _ = r.get_byte(k); continue; }
    let g = r.get_byte(k);
    if g != m.as_bytes().get(k).copied() { return Err(format!("get_byte({k}) = {:?} on text {:?}", g, m)); }
  }
  Ok(())
}

fn observe(r: &Rope, m: &str, depth: u32, unsafe_only: bool) -> Result<(), String> {
  obs_flat(r, m, unsafe_only)?;
  let n = m.len();
  for a in 0..=n + 1 {
    for b in 0..=n + 1 {
      let g = if catching() { catch_unwind(AssertUnwindSafe(|| r.get_byte_slice(a..b))).unwrap_or(None) } else { r.get_byte_slice(a..b) };
      let e = m.get(a..b);
      if !unsafe_only && g.is_some() != e.is_some() { return Err(format!("get_byte_slice({a}..{b}) is {} on text {:?}, expected {}", if g.is_some() { "Some" } else { "None" }, m, if e.is_some() { "Some" } else { "None" })); }
      if let (Some(g), Some(e)) = (&g, e) {
        if !unsafe_only && g.to_string() != e { return Err(format!("get_byte_slice({a}..{b}) = {:?} on text {:?}, expected {:?}", g.to_string(), m, e)); }
        if depth > 0 { observe(g, e, depth - 1, unsafe_only).map_err(|x| format!("on the slice {a}..{b} of {:?}: {x}", m))?; } else { obs_flat(g, e, unsafe_only)?; }
      }
      if let Some(e) = e {
        // documented-valid call of the unchecked variant
        let u = if catching() { match catch_unwind(AssertUnwindSafe(|| unsafe { r.byte_slice_unchecked(a..b) })) { Ok(u) => u, Err(_) => continue } } else { unsafe { r.byte_slice_unchecked(a..b) } };
        if (!unsafe_only || catching()) && u.to_string() != e { return Err(format!("byte_slice_unchecked({a}..{b}) = {:?} on text {:?}, expected {:?}", u.to_string(), m, e)); }
        if depth > 0 { obs_flat(&u, e, unsafe_only)?; for x in 0..=e.len() { for y in x..=e.len() { if let Some(ee) = e.get(x..y) { let uu = unsafe { u.byte_slice_unchecked(x..y) }; if (!unsafe_only || catching()) && uu.to_string() != ee { return Err(format!("byte_slice_unchecked({x}..{y}) of the slice {a}..{b} of {:?} = {:?}, expected {:?}", m, uu.to_string(), ee)); } } } } }
      }
    }
    if a <= n && unsafe_only && !catching() { let _ = r.get_byte_slice(a..); let _ = r.get_byte_slice(..=a); let _ = r.get_byte_slice((Bound::Excluded(a), Bound::Unbounded)); }
    if a <= n && catching() {
      let _ = catch_unwind(AssertUnwindSafe(|| { let _ = r.get_byte_slice(a..); let _ = r.get_byte_slice(..=a); let _ = r.get_byte_slice((Bound::Excluded(a), Bound::Unbounded)); }));
    }
    if a <= n && !unsafe_only {
      // other bound shapes
      let g = r.get_byte_slice(a..);
      if g.is_some() != m.get(a..).is_some() || g.map(|x| x.to_string()) != m.get(a..).map(|x| x.to_string()) { return Err(format!("get_byte_slice({a}..) wrong on text {:?}", m)); }
      let g = r.get_byte_slice(..=a);
      let e = if a < n { m.get(..=a) } else { None };
      if g.is_some() != e.is_some() || g.map(|x| x.to_string()) != e.map(|x| x.to_string()) { return Err(format!("get_byte_slice(..={a}) wrong on text {:?} ({} bytes)", m, n)); }
      let g = r.get_byte_slice((Bound::Excluded(a), Bound::Unbounded));
      let e = m.get(a + 1..);
      if g.is_some() != e.is_some() { return Err(format!("get_byte_slice((Excluded({a}), Unbounded)) wrong on text {:?}", m)); }
    }
  }
  if !unsafe_only {
    if r.get_byte_slice(..=usize::MAX).is_some() { return Err("get_byte_slice(..=usize::MAX) is Some".to_string()); }
    if r.get_byte_slice(..).map(|x| x.to_string()).as_deref() != Some(m) { return Err("get_byte_slice(..) is not the whole text".to_string()); }
  }
  Ok(())
}

/// run a program; Err(description) on the first wrong observation
fn run(p: &[Op], unsafe_only: bool) -> Result<(), String> {
  let mut ropes: Vec<Rope<'static>> = vec![];
  let mut models: Vec<String> = vec![];
  for op in p {
    let touched;
    match op {
      Op::New => { ropes.push(Rope::new()); models.push(String::new()); touched = ropes.len() - 1; }
      Op::From(k) => { ropes.push(Rope::from(PIECES[*k % PIECES.len()])); models.push(PIECES[*k % PIECES.len()].to_string()); touched = ropes.len() - 1; }
      Op::FromIter(v) => { let ps: Vec<&'static str> = v.iter().map(|k| PIECES[*k % PIECES.len()]).collect(); ropes.push(ps.iter().copied().collect()); models.push(ps.concat()); touched = ropes.len() - 1; }
      Op::Add(r, k) => { if ropes.is_empty() { continue; } let r = *r % ropes.len(); ropes[r].add(PIECES[*k % PIECES.len()]); models[r].push_str(PIECES[*k % PIECES.len()]); touched = r; }
      Op::Append(r, q) => { if ropes.is_empty() { continue; } let (r, q) = (*r % ropes.len(), *q % ropes.len()); let o = ropes[q].clone(); let om = models[q].clone(); ropes[r].append(o); models[r].push_str(&om); touched = r; }
      Op::Clone(r) => { if ropes.is_empty() { continue; } let r = *r % ropes.len(); ropes.push(ropes[r].clone()); models.push(models[r].clone()); touched = ropes.len() - 1; }
      Op::Slice(r, a, b) => {
        if ropes.is_empty() { continue; }
        let r = *r % ropes.len();
        let n = models[r].len();
        let (a, b) = (*a % (n + 1), *b % (n + 1));
        let (a, b) = (a.min(b), a.max(b));
        match models[r].get(a..b) {
          Some(e) => { let e = e.to_string(); let s = ropes[r].get_byte_slice(a..b).ok_or_else(|| format!("get_byte_slice({a}..{b}) is None on text {:?}", models[r]))?; ropes.push(s); models.push(e); touched = ropes.len() - 1; }
          None => { if ropes[r].get_byte_slice(a..b).is_some() && !unsafe_only { return Err(format!("get_byte_slice({a}..{b}) is Some off a char boundary of {:?}", models[r])); } continue; }
        }
      }
    }
    observe(&ropes[touched], &models[touched], 1, unsafe_only).map_err(|e| format!("after {:?}: {e}", op))?;
    // binary observers: the touched rope against every rope on the stack, both ways (starts_with, ==), against the String model
    if !unsafe_only || !catching() {
      for i in 0..ropes.len() {
        for (x, y) in [(touched, i), (i, touched)] {
          let (g, e) = (ropes[x].starts_with(&ropes[y]), models[x].starts_with(models[y].as_str()));
          if g != e && !unsafe_only { return Err(format!("after {:?}: rope #{x} ({:?}).starts_with(rope #{y} ({:?})) = {g}", op, models[x], models[y])); }
          let (g, e) = (ropes[x] == ropes[y], models[x] == models[y]);
          if g != e && !unsafe_only { return Err(format!("after {:?}: rope #{x} ({:?}) == rope #{y} ({:?}) is {g}", op, models[x], models[y])); }
        }
      }
    }
    // every other rope is unchanged (clones share their piece table)
    for i in 0..ropes.len() { if i != touched && !unsafe_only && ropes[i].to_string() != models[i] { return Err(format!("after {:?}: rope #{i} changed to {:?}, expected {:?}", op, ropes[i].to_string(), models[i])); } }
  }
  Ok(())
}

fn gen(rng: &mut Rng, len: usize) -> Vec<Op> {
  let mut p = vec![];
  let np = PIECES.len() as u64;
  for i in 0..len {
    let c = if i == 0 { rng.below(3) } else { rng.below(12) };
    p.push(match c {
      0 => Op::New,
      1 => Op::From(rng.below(np) as usize),
      2 => Op::FromIter((0..rng.below(5)).map(|_| rng.below(np) as usize).collect()),
      3 | 4 | 5 => Op::Add(rng.below(4) as usize, rng.below(np) as usize),
      6 | 7 => Op::Append(rng.below(4) as usize, rng.below(4) as usize),
      8 => Op::Clone(rng.below(4) as usize),
      _ => Op::Slice(rng.below(4) as usize, rng.below(16) as usize, rng.below(16) as usize),
    });
  }
  p
}

fn check(p: &[Op], crit: &str) -> Option<String> {
  let unsafe_only = crit != "any"; // no comparisons with the model
  CATCH.store(crit == "unsafe", std::sync::atomic::Ordering::Relaxed);
  match catch_unwind(AssertUnwindSafe(|| run(p, unsafe_only))) {
    Ok(Ok(())) => None,
    Ok(Err(e)) => if crit == "panic" { None } else { Some(e) },
    Err(pl) => {
      let msg = pl.downcast_ref::<String>().cloned().or_else(|| pl.downcast_ref::<&str>().map(|s| s.to_string())).unwrap_or_default();
      if crit == "unsafe" { None } else { Some(format!("panic: {msg}")) }
    }
  }
}

/// the pinned std's binary_search_by returns the LAST of several equal elements (assumption `last_match` of spec/rope_spec.rs)
fn std_last_match() -> bool {
  for n in 1..40usize {
    for lo in 0..n { for hi in lo..n {
      let v: Vec<u8> = (0..n).map(|i| if i < lo { 0 } else if i <= hi { 1 } else { 2 }).collect();
      if v.binary_search_by(|x| x.cmp(&1)) != Ok(hi) { return false; }
    } }
  }
  true
}

pub fn search(args: &[String]) -> i32 {
  let seed: u64 = args.first().and_then(|s| s.parse().ok()).unwrap_or(1);
  let budget: u64 = args.get(1).and_then(|s| s.parse().ok()).unwrap_or(3000);
  let crit = args.get(2).map(|s| s.as_str()).unwrap_or("any");
  std::panic::set_hook(Box::new(|_| {}));
  if !std_last_match() { println!("NOTE std binary_search_by does not return the last match on this toolchain (assumption last_match of spec/rope_spec.rs does not hold)"); }
  let mut rng = Rng(seed.wrapping_mul(0x9E3779B97F4A7C15) | 1);
  let mut tried = 0u64;
  // fixed shapes first: empty leading piece, three pieces, slices on piece boundaries, shared clones
  let fixed = ["N_A0.2_A0.4", "N_A0.1_P0.0_S0.0.1", "I2.7.4_S0.1.8_S1.1.3", "I1.2.7_A0.3_C0_A0.6_P1.0", "F2_P0.0_A0.3_S0.2.5", "N_I2.0.7_P0.1_P0.1", "I4.4.4_S0.3.12_S1.3.6",
               "F1_I3.4_P0.1_S0.1.3", "I2.7_C0_A0.1_A1.4", "N_F7_P0.1_I2.5_P0.2_S0.2.6",
               // trailing empty piece (slice ending where an empty piece sits), prefix tests against it; multi-byte comparison windows
               "N_A0.1_N_A1.2_P0.1_S0.0.1_N_A3.1", "N_A0.8_N_A1.1_P0.1_S0.0.1", "F2_N_A1.1_A1.5", "N_A0.3_A0.1_N_A1.1_A1.1_A1.1", "N_A0.3_A0.7_N_A1.1_A1.2_A1.7", "N_A0.4_N_A1.3_A1.3_A1.3",
               "I1.2_N_A1.1_P0.1_S0.0.3_I1.2_I1.2.1"];
  for f in fixed {
    tried += 1;
    println!("CASE {f}");
    if let Some(e) = check(&dec(f), crit) { return report(f, &e, tried); }
  }
  while tried < budget {
    tried += 1;
    let plen = 2 + rng.below(6) as usize;
    let p = gen(&mut rng, plen);
    let s = enc(&p);
    println!("CASE {s}");
    if let Some(e) = check(&p, crit) {
      // shrink: drop ops while it still fails
      let mut best = p.clone();
      let mut best_e = e;
      let mut i = 0;
      while i < best.len() {
        let mut q = best.clone();
        q.remove(i);
        println!("CASE {}", enc(&q));
        if let Some(e2) = check(&q, crit) { best = q; best_e = e2; } else { i += 1; }
      }
      return report(&enc(&best), &best_e, tried);
    }
  }
  println!("NO-WITNESS tried={tried}");
  0
}
fn report(input: &str, e: &str, tried: u64) -> i32 {
  println!("WITNESS kind=rope input={input}");
  println!("DETAIL rope program {input} (pieces {:?}): {}", PIECES, e.replace('\n', "\\n"));
  println!("TRIED {tried}");
  1
}
pub fn replay(w: &str) -> i32 {
  let crit = std::env::var("TWIN_ROPE_CRIT").unwrap_or_else(|_| "any".to_string());
  println!("CASE {w}");
  match check(&dec(w), &crit) {
    Some(e) => { println!("REPRODUCED {}", e.replace('\n', "\\n")); 1 }
    None => { println!("NOT-REPRODUCED"); 0 }
  }
}
