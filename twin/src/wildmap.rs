//! C17 witness search through the public API: ReplaceSource over a SourceMapSource whose map is "wild" (segments,
//! lines, source / name indices pointing outside the text or tables), then map() with both column settings and
//! source()/size().  The only criterion is a panic.
use std::panic;

use crate::rng::Rng;
use rspack_sources::{MapOptions, OriginalSource, Rope, ReplaceSource, Source, SourceMap, SourceMapSource, WithoutOriginalOptions};

fn run(text: &str, mappings: &str, ops: &[(u32, u32, String)], with_content: bool) -> Result<(), String> {
  let (text, mappings, ops) = (text.to_string(), mappings.to_string(), ops.to_vec());
  panic::catch_unwind(move || {
    let content = if with_content { vec![text.clone()] } else { vec![] };
    let map = SourceMap::new(mappings, vec!["a.js".to_string()], content, vec!["n".to_string()]);
    let src = SourceMapSource::new(WithoutOriginalOptions { value: text.clone(), name: "a.js", source_map: map });
    let mut r = ReplaceSource::new(src);
    for (s, e, c) in &ops { r.replace(*s, *e, c, None); }
    let _ = r.map(&MapOptions::default());
    let _ = r.map(&MapOptions::new(false));
    let _ = r.source();
    let _ = r.size();
  }).map_err(|e| e.downcast_ref::<String>().cloned().or_else(|| e.downcast_ref::<&str>().map(|s| s.to_string())).unwrap_or_default())
}
fn hex(s: &str) -> String { s.bytes().map(|b| format!("{b:02x}")).collect() }
fn unhex(s: &str) -> String { String::from_utf8((0..s.len() / 2).map(|i| u8::from_str_radix(&s[2 * i..2 * i + 2], 16).unwrap()).collect()).unwrap() }

pub fn search(args: &[String]) -> i32 {
  panic::set_hook(Box::new(|_| {}));
  let seed: u64 = args.first().and_then(|s| s.parse().ok()).unwrap_or(1);
  let budget: u64 = args.get(1).and_then(|s| s.parse().ok()).unwrap_or(50_000);
  let mut r = Rng(seed.wrapping_mul(0x9E3779B97F4A7C15) | 1);
  let texts = ["abc def\n", "ab\ncd", "x", "h\u{e9}llo w\n\nz"];
  for i in 0..budget {
    let text = r.pick(&texts);
    let n = 1 + r.below(10);
    // segments stay sorted by generated position (C17's domain): the first field of every segment is a non-negative
    // delta; every other field is arbitrary (negative deltas reach line 0 / huge wrapped values / unknown indices)
    let mut mappings = String::new();
    for k in 0..n {
      if k > 0 { mappings.push(if r.below(4) == 0 { ';' } else { ',' }); }
      let fields = r.pick(&[0usize, 1, 4, 4, 5]);
      for f in 0..fields { mappings.push(if f == 0 { r.pick(b"ACEGI") } else { r.pick(b"AAACDEGIgB") } as char); }
    }
    let bounds: Vec<u32> = (0..=text.len()).filter(|&i| text.is_char_boundary(i)).map(|i| i as u32).collect();
    let ops: Vec<(u32, u32, String)> = (0..r.below(3)).map(|_| { let a = r.pick(&bounds); let b = r.pick(&bounds); (a.min(b), a.max(b), r.pick(&["", "XY", "\n"]).to_string()) }).collect();
    let wc = r.below(2) == 0;
    let rx = std::env::var("TWIN_PANIC_RX").unwrap_or_default();
    if let Err(p) = run(text, &mappings, &ops, wc) {
      if !rx.is_empty() && !p.contains(&rx) { continue; }
      println!("WITNESS kind=wildmap input=text={} map={} content={} ops={}", hex(text), mappings, wc as u8, ops.iter().map(|(s, e, c)| format!("{s}:{e}:{}", hex(c))).collect::<Vec<_>>().join("_"));
      println!("DETAIL ReplaceSource over SourceMapSource(value={text:?}, mappings={mappings:?}, sourcesContent={wc}) with replacements {ops:?}: map()/source() panicked: {p}");
      println!("TRIED {}", i + 1);
      return 1;
    }
  }
  println!("NO-WITNESS tried={budget}");
  0
}
pub fn replay(w: &str) -> i32 {
  panic::set_hook(Box::new(|_| {}));
  let mut text = String::new(); let mut map = String::new(); let mut wc = false; let mut ops = vec![];
  for part in w.split_whitespace() {
    if let Some(t) = part.strip_prefix("text=") { text = unhex(t); }
    if let Some(t) = part.strip_prefix("map=") { map = t.to_string(); }
    if let Some(t) = part.strip_prefix("content=") { wc = t == "1"; }
    if let Some(t) = part.strip_prefix("ops=") { for x in t.split('_').filter(|x| !x.is_empty()) { let f: Vec<&str> = x.split(':').collect(); ops.push((f[0].parse().unwrap(), f[1].parse().unwrap(), unhex(f.get(2).copied().unwrap_or("")))); } }
  }
  match run(&text, &map, &ops, wc) { Err(p) => { println!("REPRODUCED panic: {p}"); 1 } Ok(()) => { println!("NOT-REPRODUCED"); 0 } }
}

// ---- OriginalSource tokenizer (helpers::PotentialTokens) on arbitrary UTF-8 text: any panic ----
fn run_tokens(text: &str) -> Result<(), String> {
  let text = text.to_string();
  panic::catch_unwind(move || {
    let s = OriginalSource::new(text.clone(), "a.js");
    let _ = s.map(&MapOptions::default());
    let _ = s.map(&MapOptions::new(false));
    let mut r = ReplaceSource::new(OriginalSource::new(text, "a.js"));
    r.insert(0, "x", None);
    let _ = r.map(&MapOptions::default());
  }).map_err(|e| e.downcast_ref::<String>().cloned().or_else(|| e.downcast_ref::<&str>().map(|s| s.to_string())).unwrap_or_default())
}
pub fn search_tokens(args: &[String]) -> i32 {
  panic::set_hook(Box::new(|_| {}));
  let seed: u64 = args.first().and_then(|s| s.parse().ok()).unwrap_or(1);
  let budget: u64 = args.get(1).and_then(|s| s.parse().ok()).unwrap_or(50_000);
  let mut r = Rng(seed.wrapping_mul(0x9E3779B97F4A7C15) | 1);
  let alpha: Vec<char> = "ab;{} \t\r\n\u{e9}\u{a9}\u{20ac}\u{1F600}\u{7f}\u{80}".chars().collect();
  for i in 0..budget {
    let n = r.below(9);
    let text: String = (0..n).map(|_| r.pick(&alpha)).collect();
    println!("CASE {}", hex(&text)); // progress marker: a hang shows up as a timeout after this line
    if let Err(p) = run_tokens(&text) {
      println!("WITNESS kind=tokens input={}", hex(&text));
      println!("DETAIL OriginalSource::new({text:?}, \"a.js\").map(..) panicked: {p}");
      println!("TRIED {}", i + 1);
      return 1;
    }
  }
  println!("NO-WITNESS tried={budget}");
  0
}
pub fn replay_tokens(w: &str) -> i32 {
  panic::set_hook(Box::new(|_| {}));
  match run_tokens(&unhex(w)) { Err(p) => { println!("REPRODUCED panic: {p}"); 1 } Ok(()) => { println!("NOT-REPRODUCED"); 0 } }
}

// ---- Rope slicing entry points with extreme range bounds: any panic (get_byte_slice must answer None) ----
fn run_rope_bounds(pieces: &[&'static str], case: usize) -> Result<(), String> {
  use std::ops::Bound::*;
  let pieces = pieces.to_vec();
  panic::catch_unwind(move || {
    let mut r = Rope::new();
    for p in &pieces { r.add(p); }
    let m = usize::MAX;
    let _ = match case {
      0 => r.get_byte_slice(..=m),
      1 => r.get_byte_slice(0..=m),
      2 => r.get_byte_slice((Excluded(m), Unbounded)),
      3 => r.get_byte_slice((Excluded(m), Included(m))),
      4 => r.get_byte_slice(m..),
      5 => r.get_byte_slice(..m),
      6 => r.get_byte_slice((Excluded(0), Included(0))),
      _ => r.get_byte_slice(1..=m - 1),
    };
  }).map_err(|e| e.downcast_ref::<String>().cloned().or_else(|| e.downcast_ref::<&str>().map(|s| s.to_string())).unwrap_or_default())
}
pub fn search_rope_bounds(_args: &[String]) -> i32 {
  panic::set_hook(Box::new(|_| {}));
  let ropes: [&[&'static str]; 3] = [&["abc"], &["ab", "c\u{e9}"], &[]];
  let mut tried = 0;
  for (ri, pieces) in ropes.iter().enumerate() {
    for case in 0..8 {
      tried += 1;
      if let Err(p) = run_rope_bounds(pieces, case) {
        println!("WITNESS kind=ropebounds input={ri}:{case}");
        println!("DETAIL Rope built from {pieces:?}: get_byte_slice with range case #{case} (bounds at usize::MAX) panicked: {p}");
        println!("TRIED {tried}");
        return 1;
      }
    }
  }
  println!("NO-WITNESS tried={tried}");
  0
}
pub fn replay_rope_bounds(w: &str) -> i32 {
  panic::set_hook(Box::new(|_| {}));
  let ropes: [&[&'static str]; 3] = [&["abc"], &["ab", "c\u{e9}"], &[]];
  let f: Vec<usize> = w.split(':').map(|x| x.parse().unwrap()).collect();
  match run_rope_bounds(ropes[f[0]], f[1]) { Err(p) => { println!("REPRODUCED panic: {p}"); 1 } Ok(()) => { println!("NOT-REPRODUCED"); 0 } }
}

// ---- degenerate ropes: a multi-piece representation that holds no piece (C19).  An unsafe-precondition violation
// aborts the process (debug builds check `get_unchecked`), so each case is announced before it runs. ----
pub fn search_rope_degenerate(_args: &[String]) -> i32 {
  let shapes: [Vec<&'static str>; 3] = [vec![], vec!["", ""], vec![""]];
  let mut tried = 0;
  for (i, sh) in shapes.iter().enumerate() {
    for (a, b) in [(0usize, 0usize), (0, 1), (1, 1)] {
      tried += 1;
      println!("CASE {i}:{a}:{b}");
      let r: Rope = sh.iter().copied().collect();
      let s = r.get_byte_slice(a..b);
      let want_some = a == 0 && b == 0;
      if s.is_some() != want_some || r.get_byte(a).is_some() {
        println!("WITNESS kind=ropedegenerate input={i}:{a}:{b}");
        println!("DETAIL Rope::from_iter({sh:?}).get_byte_slice({a}..{b}) answered {:?}-ness wrongly", s.is_some());
        println!("TRIED {tried}");
        return 1;
      }
    }
  }
  println!("NO-WITNESS tried={tried}");
  0
}
pub fn replay_rope_degenerate(w: &str) -> i32 {
  let shapes: [Vec<&'static str>; 3] = [vec![], vec!["", ""], vec![""]];
  let f: Vec<usize> = w.split(':').map(|x| x.parse().unwrap()).collect();
  println!("CASE {w}");
  let r: Rope = shapes[f[0]].iter().copied().collect();
  let s = r.get_byte_slice(f[1]..f[2]);
  if s.is_some() != (f[1] == 0 && f[2] == 0) { println!("REPRODUCED wrong answer"); 1 } else { println!("NOT-REPRODUCED"); 0 }
}
