#!/usr/bin/env python3
"""selftest/benign.py [name-substring ...]: behaviour-preserving changes (benign/<id>/patch.diff) must never alarm:
each check of the listed properties has to exit 0 (or 2, undecided) on the patched tree - never 1."""
import json, os, shutil, subprocess, sys, time
HERE = os.path.dirname(os.path.abspath(__file__)); VERIF = os.path.dirname(HERE)
args = [a for a in sys.argv[1:] if not a.startswith("--")]
PROPS = {"B1": ["C12", "C11", "C17", "C19"], "B2": ["C05", "C14", "C17"], "B3": ["C14", "C19", "C12", "C17"], "B4": ["C05", "C17", "C19", "C12"], "B5": ["C12", "C17", "C14", "C19"], "B6": ["C16", "C19", "C17"], "B7": ["C16", "C07", "C17"]}
def sh(cmd, cwd=None, env=None): return subprocess.run(cmd, shell=True, cwd=cwd, env=env, capture_output=True, text=True)
bad = 0
for name in sorted(os.listdir(VERIF + "/benign")):
    sd = f"{VERIF}/benign/{name}"
    if not os.path.isfile(sd + "/patch.diff"): continue
    if args and not any(a in name for a in args): continue
    wt = f"/tmp/benign-wt-{name}"
    sh(f"git -C /repo worktree remove --force {wt}"); shutil.rmtree(wt, ignore_errors=True)
    sh(f"git -C /repo worktree add -q --detach {wt} HEAD")
    try:
        a = sh(f"git apply {sd}/patch.diff", cwd=wt)
        if a.returncode != 0: print(f"{name}: patch does not apply"); continue
        res = {}
        for p in PROPS.get(name[:2], ["C12"]):
            t0 = time.time()
            c = sh(f"{VERIF}/check {p}", env=dict(os.environ, VERIF_REPO=wt))
            got = {0: "pass", 1: "VIOLATION", 2: "undecided"}.get(c.returncode, "?")
            bad += got == "VIOLATION"
            detail = [l.strip() for l in c.stdout.splitlines() if "failed obligation" in l or "undecided:" in l][:2]
            res[p] = {"verdict": got, "detail": detail}
            print(f"{'FALSE-ALARM' if got=='VIOLATION' else 'ok':11s} {name:8s} {p} -> {got:10s} {time.time()-t0:4.0f}s {detail[:1]}")
        json.dump({"results": res, "at": time.strftime("%F %T")}, open(sd + "/meta.json", "w"), indent=1)
    finally:
        sh(f"git -C /repo worktree remove --force {wt}"); shutil.rmtree(wt, ignore_errors=True)
sys.exit(1 if bad else 0)
