"""Self-test corpus: breaking edits (must alarm, naming an obligation) and benign edits (must not alarm).
Each entry: (name, file, old, new, {prop: expected}) with expected in {"V" violation, "P" pass, "P2" pass-or-undecided}."""
M = [
 # ---- breaking: encoder ----
 ("vlq_cont_threshold", "src/encoder.rs", "    if num > 0 {\n      digit |= 1 << 5;", "    if num > 1 {\n      digit |= 1 << 5;", {"C12": "V", "C11": "P"}),
 ("vlq_mask", "src/encoder.rs", "let mut digit = num & 0b11111;", "let mut digit = num & 0b1111;", {"C12": "V"}),
 ("vlq_sign", "src/encoder.rs", "    ((b - a) << 1) + 1\n", "    ((b - a) << 1)\n", {"C12": "V"}),
 ("name_index_not_updated", "src/encoder.rs", "        self.current_name_index = name_index;\n", "", {"C12": "V"}),
 ("skip_rule_widened", "src/encoder.rs", "          && !self.active_name\n", "", {"C12": "V"}),
 ("lines_AACA", "src/encoder.rs", 'self.mappings.extend(b"AACA");', 'self.mappings.extend(b"AAAA");', {"C12": "V", "C11": "P"}),
 ("nonwire_byte", "src/encoder.rs", "      self.mappings.push(b',');", "      self.mappings.push(b' ');", {"C12": "V", "C11": "V", "C19": "V"}),
 ("nonascii_byte", "src/encoder.rs", "      self.mappings.push(b',');", "      self.mappings.push(0xffu8);", {"C11": "V", "C19": "V"}),
 ("b64_table_typo", "src/encoder.rs", "ABCDEFGHIJKLMNOPQRSTUVWXYZabcdefghijklmnopqrstuvwxyz0123456789+/", "ABCDEFGHIJKLMNOPQRSTUVWXYZabcdefghijklmnopqrstuvwxyz0123456789-/", {"C12": "V"}),
 ("col_not_reset", "src/encoder.rs", "      self.current_column = 0;\n", "", {"C12": "V"}),
 # ---- breaking: decoder ----
 ("dec_col_not_reset", "src/decoder.rs", "          self.current_data[0] = 0;\n", "", {"C12": "V"}),
 ("dec_emit_3_fields", "src/decoder.rs", "          1 => return Some(mapping),", "          1 | 3 => return Some(mapping),", {"C12": "P2"}),  # changes behaviour only on 3-field segments, which are outside the v3 grammar C12 quantifies over: the contract (stated over all strings) fails, no in-domain witness exists -> undecided
 ("dec_table_typo", "src/decoder.rs", "    52,  53,  54,  55,  56,  57,  58,  59,  60,  61, ERR, SEM,", "    52,  53,  54,  55,  56,  57,  58,  59,  61,  60, ERR, SEM,", {"C12": "V"}),
 ("dec_guard_removed", "src/decoder.rs", "        if self.current_value_pos < 64 {\n          self.current_value |= (value as i64) << self.current_value_pos;\n        }", "        self.current_value |= (value as i64) << self.current_value_pos;", {"C17": "V"}),
 ("dec_line_wrap", "src/decoder.rs", "          self.generated_line += 1;", "          self.generated_line += 2;", {"C12": "V", "C17": "P2"}),  # C17: the proof fails (line counter may overflow) but a witness needs a 2 GiB string -> undecided
 # ---- breaking: ReplaceSource::source ----
 ("rs_max_removed", "src/replace_source.rs", "        inner_pos = inner_pos\n          .max(replacement.end)\n          .min(inner_source_code.len() as u32);\n      }\n    }\n    source_code.push_str(",
  "        inner_pos = replacement.end\n          .min(inner_source_code.len() as u32);\n      }\n    }\n    source_code.push_str(", {"C05": "V"}),
 ("rs_clamp_removed", "src/replace_source.rs", "        let end_pos = (replacement.start as usize).min(inner_source_code.len());\n        source_code.push_str(",
  "        let end_pos = replacement.start as usize;\n        source_code.push_str(", {"C05": "V", "C17": "V"}),
 ("rs_content_twice", "src/replace_source.rs", "      source_code.push_str(&replacement.content);\n", "      source_code.push_str(&replacement.content);\n      if replacement.start == 7 && replacement.end == 7 { source_code.push_str(&replacement.content); }\n", {"C05": "V"}),
 ("benign_rs_le", "src/replace_source.rs", "      if inner_pos < replacement.start {\n        let end_pos = (replacement.start as usize).min(inner_source_code.len());\n        source_code.push_str(",
  "      if inner_pos <= replacement.start {\n        let end_pos = (replacement.start as usize).min(inner_source_code.len());\n        source_code.push_str(", {"C05": "P2"}),
 ("rs_flag_reset_removed", "src/replace_source.rs", "      enforce,\n    ));\n    self.is_sorted.store(false, Ordering::SeqCst);", "      enforce,\n    ));", {"C05": "V"}),
 ("rs_sort_key_order", "src/replace_source.rs", "(a.start, a.end, a.enforce).cmp(&(b.start, b.end, b.enforce))", "(a.start, a.enforce, a.end).cmp(&(b.start, b.enforce, b.end))", {"C05": "V"}),
 ("rs_clone_flag", "src/replace_source.rs", "      sorted_index: Mutex::new(self.sorted_index.lock().unwrap().clone()),", "      sorted_index: Mutex::new(Vec::new()),", {"C05": "V"}),
 ("line0_guard_removed", "src/replace_source.rs", "  if line == 0 {\n    return false;\n  }\n", "", {"C17": "V"}),
 ("lines_plus1_overflow", "src/encoder.rs", "        if self.current_original_line.checked_add(1)\n          == Some(original.original_line)\n        {", "        if original.original_line == self.current_original_line + 1 {", {"C17": "V", "C12": "P"}),
 ("insert_swapped_args", "src/replace_source.rs", "    self.replace_with_enforce(start, start, content, name, enforce)", "    self.replace_with_enforce(start, start + 1, content, name, enforce)", {"C05": "V"}),
 ("rope_max_removed", "src/replace_source.rs", "        inner_pos = inner_pos\n          .max(replacement.end)\n          .min(inner_source_code.len() as u32);\n      }\n    }\n    let slice =", "        inner_pos = replacement.end\n          .min(inner_source_code.len() as u32);\n      }\n    }\n    let slice =", {"C05": "V"}),
 ("tokens_stop_at_continuation", "src/helpers.rs", "      while c != '\\n' && c != ';' && c != '{' && c != '}' {", "      while c != '\\n' && c != ';' && c != '{' && c != '}' && c != '\\u{a9}' {", {"C17": "V"}),
 ("tokens_newline_kept_out", "src/helpers.rs", "      if c == '\\n' {\n        self.index += 1;\n      }\n", "", {"C17": "V"}),
 ("sms_eq_ignores_flag", "src/source_map_source.rs", "      && self.remove_original_source == other.remove_original_source\n", "", {"C14": "V"}),
 ("sms_hash_includes_name", "src/source_map_source.rs", "    self.remove_original_source.hash(state);\n", "    self.remove_original_source.hash(state);\n    self.name.len().hash(state);\n", {"C14": "P2"}),
 ("rope_bound_plus1", "src/rope.rs", "    Bound::Included(&end) => Some(end.saturating_add(1)),", "    Bound::Included(&end) => Some(end + 1),", {"C17": "V"}),
 ("rope_empty_guard_removed", "src/rope.rs", "        // a rope built from no (non-empty) pieces has no chunk to index\n        if data.is_empty() {\n          return Ok(Rope::new());\n        }\n", "", {"C19": "V"}),
 # ---- breaking: Rope core (unit rope_core) ----
 ("rope_add_offset0", "src/rope.rs", "        let vec = Vec::from_iter([(*s, 0), (value, s.len())]);", "        let vec = Vec::from_iter([(*s, 0), (value, 0)]);", {"C16": "V"}),
 ("rope_append_len_not_advanced", "src/rope.rs", "        for &(chunk, _) in other.iter() {\n          cur.push((chunk, len));\n          len += chunk.len();\n        }", "        for &(chunk, _) in other.iter() {\n          cur.push((chunk, len));\n        }", {"C16": "V", "C05": "V"}),
 ("rope_slice_last_piece_dropped", "src/rope.rs", "        (start_chunk_index..end_chunk_index + 1).try_for_each(|i| {", "        (start_chunk_index..end_chunk_index).try_for_each(|i| {", {"C16": "V"}),
 ("rope_unchecked_off_by_one", "src/rope.rs", "            let chunk = unsafe { chunk.get_unchecked(..end) };", "            let chunk = unsafe { chunk.get_unchecked(..end + 1) };", {"C19": "V"}),
 ("rope_end_check_removed", "src/rope.rs", "      (None, Some(end)) => {\n        if end > self.len() {\n          return Err(Error::Rope(\"end out of bounds\"));\n        }\n      }", "      (None, Some(_end)) => {}", {"C17": "V", "C19": "V"}),
 # ---- breaking: ConcatSource views (unit concat_views) ----
 ("concat_rope_two_children_delegated", "src/concat_source.rs", "    if children.len() == 1 {\n      children[0].rope()", "    if children.len() == 1 || children.len() == 2 {\n      children[0].rope()", {"C07": "V"}),
 ("concat_size_counts_text", "src/concat_source.rs", "    self.children().iter().map(|child| child.size()).sum()", "    self.children().iter().map(|child| child.source().len()).sum()", {"C07": "V"}),
 ("concat_buffer_from_source", "src/concat_source.rs", "        .map(|child| child.buffer())\n", "        .map(|child| Cow::<[u8]>::Owned(child.source().as_bytes().to_vec()))\n", {"C07": "V"}),
 ("concat_rope_reversed", "src/concat_source.rs", "      for child in children {\n        let child_rope = child.rope();", "      for child in children.iter().rev() {\n        let child_rope = child.rope();", {"C07": "V"}),
 ("benign_concat_len_check", "src/concat_source.rs", "    if children.len() == 1 {\n      children[0].buffer()", "    if 1 == children.len() {\n      children[0].buffer()", {"C07": "P2"}),
 ("leaf_rawbuffer_size_of_text", "src/raw_source.rs", "  fn size(&self) -> usize {\n    self.value.len()\n  }", "  fn size(&self) -> usize {\n    self.source().len()\n  }", {"C07": "V"}),
 ("leaf_original_buffer_is_name", "src/original_source.rs", "    Cow::Borrowed(self.value.as_bytes())", "    Cow::Borrowed(self.name.as_bytes())", {"C07": "V"}),
 ("leaf_rawsource_rope_of_lossy_only", "src/raw_source.rs", "      RawValue::String(s) => Rope::from(s),", "      RawValue::String(s) => Rope::from(&s[..s.len().min(3)]),", {"C07": "V"}),
 # ---- breaking: Rope observers (unit rope_obs) ----
 ("ropeobs_ends_with_last_piece", "src/rope.rs", "          if !chunk.is_empty() {\n            return chunk.ends_with(value);\n          }", "          return chunk.ends_with(value);", {"C16": "V"}),
 ("ropeobs_starts_with_equality", "src/rope.rs", "          // every piece of `value` matched: `value` is a prefix, whatever remains\n          true", "          remaining.is_empty()", {"C16": "V"}),
 ("ropeobs_empty_piece_not_skipped", "src/rope.rs", "                  if remaining_other.is_empty() {\n                    // an empty piece matches trivially\n                    continue;\n                  }\n", "", {"C16": "V"}),
 ("ropeobs_is_empty_first_piece", "src/rope.rs", "      Repr::Full(data) => data.iter().all(|(s, _)| s.is_empty()),", "      Repr::Full(data) => data.first().map_or(true, |(s, _)| s.is_empty()),", {"C16": "V"}),
 ("ropeobs_full_light_early_true", "src/rope.rs", "              if chunk.starts_with(remaining_other) {\n                return true;\n              }", "              if chunk.starts_with(remaining_other) || remaining_other.len() < chunk.len() {\n                return true;\n              }", {"C16": "V"}),
 ("ropeobs_eq_str_skips_last", "src/rope.rs", "          if chunk != &other[idx..(idx + chunk.len())] {\n            return false;\n          }\n          idx += chunk.len();\n        }\n      }\n    }\n\n    true\n  }\n}\n\nimpl PartialEq<&str>", "          if idx > 0 && chunk != &other[idx..(idx + chunk.len())] {\n            return false;\n          }\n          idx += chunk.len();\n        }\n      }\n    }\n\n    true\n  }\n}\n\nimpl PartialEq<&str>", {"C16": "V"}),
 ("ropeobs_char_indices_bound", "src/rope.rs", "        // only empty chunks were left\n        if *chunk_index >= chunks.len() {\n          return None;\n        }\n", "", {"C16": "P2"}),  # CharIndices::next is not under contract: nothing fails, no search runs
 ("benign_rope_len_commute", "src/rope.rs", "        .map_or(0, |(chunk, start_pos)| start_pos + chunk.len()),\n    }\n  }", "        .map_or(0, |(chunk, start_pos)| chunk.len() + start_pos),\n    }\n  }", {"C16": "P2"}),
 # ---- benign ----
 ("benign_rename_local", "src/encoder.rs", "let mut digit = num & 0b11111;\n    num >>= 5;\n    if num > 0 {\n      digit |= 1 << 5;\n    }\n    out.push(B64_CHARS[digit as usize]);",
  "let mut dg = num & 0b11111;\n    num >>= 5;\n    if num > 0 {\n      dg |= 1 << 5;\n    }\n    out.push(B64_CHARS[dg as usize]);", {"C12": "P", "C17": "P"}),
 ("benign_reorder", "src/encoder.rs", "      self.current_line = mapping.generated_line;\n      self.current_column = 0;\n      self.initial = false;", "      self.initial = false;\n      self.current_column = 0;\n      self.current_line = mapping.generated_line;", {"C12": "P2"}),
 ("benign_comment", "src/decoder.rs", "        // last sextet\n", "        // last sextet of the value\n        // (no continuation bit)\n", {"C12": "P", "C17": "P"}),
 ("benign_equiv_guard", "src/encoder.rs", "    if num == 0 {\n      break;", "    if num < 1 {\n      break;", {"C12": "P2"}),
 ("benign_reserve", "src/encoder.rs", "    if self.current_line < mapping.generated_line {\n", "    self.mappings.reserve(8);\n    if self.current_line < mapping.generated_line {\n", {"C12": "P2", "C11": "P2"}),
]
