#!/usr/bin/env python3
"""selftest/run.py [name-substring ...]: apply each corpus edit to a scratch copy of /repo and run the checks."""
import json, os, shutil, subprocess, sys, tempfile, time
HERE = os.path.dirname(os.path.abspath(__file__)); VERIF = os.path.dirname(HERE)
sys.path.insert(0, HERE)
from mutants import M
sel = sys.argv[1:]
res = []
base = tempfile.mkdtemp(prefix="selftest-", dir="/tmp")
ok_all = True
try:
    for name, f, old, new, exp in M:
        if sel and not any(s in name for s in sel): continue
        d = os.path.join(base, name); os.makedirs(d)
        shutil.copytree("/repo/src", d + "/src")
        for x in ["Cargo.toml", "Cargo.lock", "rust-toolchain.toml"]: shutil.copy("/repo/" + x, d)
        s = open(f"{d}/{f}").read()
        if s.count(old) != 1:
            print(f"{name}: CORPUS-STALE (old text occurs {s.count(old)} times)"); ok_all = False; continue
        open(f"{d}/{f}", "w").write(s.replace(old, new))
        for prop, want in exp.items():
            t = time.time()
            p = subprocess.run([VERIF + "/check", prop], env=dict(os.environ, VERIF_REPO=d, VERIF_SELFTEST="1"), capture_output=True, text=True)
            got = {0: "P", 1: "V", 2: "U"}.get(p.returncode, "?")
            good = (got == want) or (want == "P2" and got in "PU")
            ok_all &= good
            obl = [l.strip() for l in p.stdout.splitlines() if "failed obligation" in l][:3]
            print(f"{'ok  ' if good else 'BAD '} {name:28s} {prop} want={want} got={got} {time.time()-t:.0f}s {obl}")
            res.append({"name": name, "prop": prop, "want": want, "got": got, "obligations": obl})
        shutil.rmtree(d)
finally:
    shutil.rmtree(base, ignore_errors=True)
json.dump({"at": time.strftime("%F %T"), "results": res, "all_ok": ok_all}, open(HERE + "/last_run.json", "w"), indent=1)
sys.exit(0 if ok_all else 1)
