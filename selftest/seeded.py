#!/usr/bin/env python3
"""selftest/seeded.py [name-substring ...] [--validate]: apply each seeded change (seeded/<id>/patch.diff) to a scratch
worktree of /repo, optionally re-validate it (existing tests pass, demo fails with / passes without the patch), run the
check(s) of the property it breaks against that tree, and record the outcome in seeded/<id>/meta.json."""
import json, os, shutil, subprocess, sys, time
HERE = os.path.dirname(os.path.abspath(__file__)); VERIF = os.path.dirname(HERE)
args = [a for a in sys.argv[1:] if not a.startswith("--")]
validate = "--validate" in sys.argv
TARGET = "/tmp/seeded-target"
def sh(cmd, cwd=None, env=None, timeout=3600):
    return subprocess.run(cmd, shell=True, cwd=cwd, env=env, capture_output=True, text=True, timeout=timeout)
def cargo_test(d, extra=""):
    return sh(f"CARGO_TARGET_DIR={TARGET} cargo test --offline {extra} 2>&1", cwd=d)
ok_all = True
for name in sorted(os.listdir(VERIF + "/seeded")):
    sd = f"{VERIF}/seeded/{name}"
    if not os.path.isfile(sd + "/patch.diff"): continue
    if args and not any(a in name for a in args): continue
    am = json.load(open(sd + "/agent_meta.json")) if os.path.exists(sd + "/agent_meta.json") else {}
    meta = json.load(open(sd + "/meta.json")) if os.path.exists(sd + "/meta.json") else {}
    prop = meta.get("property") or name[:3]
    props = meta.get("check_properties") or [prop]
    wt = f"/tmp/seeded-wt-{name}"
    sh(f"git -C /repo worktree remove --force {wt}"); shutil.rmtree(wt, ignore_errors=True)
    r = sh(f"git -C /repo worktree add -q --detach {wt} HEAD")
    try:
        val = meta.get("validated", {})
        if validate:
            shutil.copy(sd + "/demo_seed.rs", wt + "/tests/demo_seed.rs")
            clean = cargo_test(wt, "--test demo_seed")
            val["demo_passes_without_patch"] = clean.returncode == 0
        a = sh(f"git apply {sd}/patch.diff", cwd=wt)
        if a.returncode != 0:
            print(f"{name}: patch does not apply: {a.stderr[:200]}"); ok_all = False; continue
        if validate:
            d = cargo_test(wt, "--test demo_seed")
            val["demo_fails_with_patch"] = d.returncode != 0 and "error[" not in d.stdout and "could not compile" not in d.stdout
            os.remove(wt + "/tests/demo_seed.rs")
            t = cargo_test(wt)
            val["tests_pass_with_patch"] = t.returncode == 0
            val["at"] = time.strftime("%F %T")
        results = {}
        for p in props:
            t0 = time.time()
            c = sh(f"{VERIF}/check {p}", env=dict(os.environ, VERIF_REPO=wt))
            got = {0: "pass", 1: "VIOLATION", 2: "undecided"}.get(c.returncode, "?")
            obl = [l.strip() for l in c.stdout.splitlines() if "failed obligation" in l][:4]
            wit = [l.strip() for l in c.stdout.splitlines() if l.strip().startswith("witness")][:1]
            vio = [l for l in c.stdout.splitlines() if l.startswith("VIOLATION")]
            und = [l.strip() for l in c.stdout.splitlines() if "undecided:" in l][:2]
            results[p] = {"verdict": got, "obligations": obl, "witness": wit, "violation_line": vio[:1], "undecided": und, "wall_s": round(time.time() - t0)}
            print(f"{name:12s} {p} -> {got:10s} {time.time()-t0:4.0f}s {obl[:1] or und[:1]}")
        meta.update({"property": prop, "check_properties": props, "summary": am.get("summary"), "needs": am.get("needs"),
                     "validated": val, "check_results": results, "checked_at": time.strftime("%F %T"),
                     "ran": [f"git apply patch.diff (scratch worktree of /repo HEAD)", "cargo test --offline", "cargo test --offline --test demo_seed", f"VERIF_REPO=<worktree> ./check <prop>"]})
        json.dump(meta, open(sd + "/meta.json", "w"), indent=1)
    finally:
        sh(f"git -C /repo worktree remove --force {wt}"); shutil.rmtree(wt, ignore_errors=True)
shutil.rmtree(TARGET, ignore_errors=True) if validate else None
