// ---- from_iter: the text a sequence of string slices denotes ----
pub open spec fn strs_bytes(v: Seq<&str>) -> Seq<u8> decreases v.len() {
  if v.len() == 0 { Seq::<u8>::empty() } else { strs_bytes(v.drop_last()) + v.last().spec_bytes() }
}
pub proof fn lemma_strs_take(v: Seq<&str>, i: int)
  requires 0 <= i < v.len()
  ensures strs_bytes(v.take(i + 1)) == strs_bytes(v.take(i)) + v[i].spec_bytes(), strs_bytes(v.take(i + 1)).len() <= strs_bytes(v).len()
  decreases v.len() - i
{
  assert(v.take(i + 1).drop_last() =~= v.take(i));
  if i + 1 == v.len() { assert(v.take(i + 1) =~= v); } else { lemma_strs_take(v, i + 1); }
}
