pub proof fn lemma_next_bounds(s: DS, bytes: Seq<u8>)
  ensures ({ let (e, s2, k) = dec_next(s, bytes); k <= bytes.len() && (e is Some ==> (k >= 1 || (s2.pos == 0 && s.pos > 0))) })
  decreases bytes.len()
{
  if bytes.len() > 0 { let (s2, e) = dec_byte(s, bytes[0]); if e is None { lemma_next_bounds(s2, bytes.skip(1)); } }
}
