pub assume_specification<T, F: FnOnce(T) -> bool>[Option::<T>::is_some_and](o: Option<T>, f: F) -> (r: bool)
  requires o is Some ==> f.requires((o->0,)),
  ensures o is None ==> !r, o is Some ==> f.ensures((o->0,), r);
pub assume_specification[String::from_utf8_unchecked](v: Vec<u8>) -> (s: String)
  requires forall|i: int| 0 <= i < v@.len() ==> v@[i] < 128;
pub assume_specification<T: Default>[std::mem::take](x: &mut T) -> (r: T)
  ensures r == *old(x);
pub proof fn lemma_vlq_wire(n: nat)
  ensures all_wire(vlq_digits(n)), vlq_digits(n).len() >= 1
  decreases n
{
  if n / 32 > 0 { lemma_vlq_wire(n / 32); lemma_tbl_b64((n % 32 + 32) as int); } else { lemma_tbl_b64((n % 32) as int); }
}

pub proof fn lemma_fld_same(x: u32) ensures fld(x, x) == seq![65u8]
{ assert(zz(x as int, x as int) == 0); reveal_with_fuel(vlq_digits, 2); assert(vlq_digits(0) =~= seq![65u8]); }
pub proof fn lemma_wire_concat(a: Seq<u8>, b: Seq<u8>) requires all_wire(a), all_wire(b) ensures all_wire(a + b) {}
pub proof fn lemma_fld_wire(a: u32, b: u32) ensures all_wire(fld(a, b)) { lemma_vlq_wire(zz(a as int, b as int)); }
pub proof fn lemma_enc_bytes_wire(s: ES, m: Mapping) ensures all_wire(enc_bytes(s, m))
{
  if !dropped(s, m) {
    let col0 = if s.line < m.generated_line { 0u32 } else { s.col };
    assert(all_wire(sep_bytes(s, m)));
    lemma_fld_wire(m.generated_column, col0);
    match m.original {
      Some(o) => {
        lemma_fld_wire(o.source_index, s.si); lemma_fld_wire(o.original_line, s.ol); lemma_fld_wire(o.original_column, s.oc);
        match o.name_index { Some(n) => { lemma_fld_wire(n, s.ni); }, None => {} }
        lemma_wire_concat(fld(o.source_index, s.si), fld(o.original_line, s.ol));
        lemma_wire_concat(fld(o.source_index, s.si) + fld(o.original_line, s.ol), fld(o.original_column, s.oc));
        lemma_wire_concat(fld(o.source_index, s.si) + fld(o.original_line, s.ol) + fld(o.original_column, s.oc), (match o.name_index { Some(n) => fld(n, s.ni), None => Seq::<u8>::empty() }));
      },
      None => {},
    }
    lemma_wire_concat(sep_bytes(s, m), fld(m.generated_column, col0));
    lemma_wire_concat(sep_bytes(s, m) + fld(m.generated_column, col0), orig_bytes(s, m));
  }
}

pub proof fn lemma_fld_plus1(x: u32) requires x < lim() ensures fld((x + 1) as u32, x) == seq![67u8]
{ assert(zz(x as int + 1, x as int) == 2); reveal_with_fuel(vlq_digits, 2); assert(vlq_digits(2) =~= seq![67u8]); }
