pub assume_specification<T, F: FnOnce(T) -> bool>[Option::<T>::is_some_and](o: Option<T>, f: F) -> (r: bool)
  requires o is Some ==> f.requires((o->0,)),
  ensures o is None ==> !r, o is Some ==> f.ensures((o->0,), r);
pub open spec fn bytes_as_chars(b: Seq<u8>) -> Seq<char> { Seq::new(b.len(), |i: int| b[i] as char) }
// unsafe fn: the `requires` is its documented safety precondition restricted to what the call sites need
// (ASCII is valid UTF-8); the `ensures` is the identity on ASCII.
pub assume_specification[String::from_utf8_unchecked](v: Vec<u8>) -> (s: String)
  requires forall|i: int| 0 <= i < v@.len() ==> v@[i] < 128,
  ensures s@ == bytes_as_chars(v@);
// std: "Computes the absolute difference between self and other" (a refactoring may reach for it)
pub assume_specification[u32::abs_diff](a: u32, b: u32) -> (r: u32)
  ensures r == (if a >= b { a - b } else { b - a });
pub assume_specification<T: Default>[std::mem::take](x: &mut T) -> (r: T)
  ensures r == *old(x);
pub proof fn lemma_vlq_wire(n: nat)
  ensures all_wire(vlq_digits(n)), vlq_digits(n).len() >= 1
  decreases n
{
  if n / 32 > 0 { lemma_vlq_wire(n / 32); lemma_tbl_b64((n % 32 + 32) as int); } else { lemma_tbl_b64((n % 32) as int); }
}

pub proof fn lemma_fld_same(x: u32) ensures fld(x, x) == seq![65u8]
{ assert(zz(x as int, x as int) == 0); reveal_with_fuel(vlq_digits, 2); assert(vlq_digits(0) =~= seq![65u8]); }
pub proof fn lemma_wire_concat(a: Seq<u8>, b: Seq<u8>) requires all_wire(a), all_wire(b) ensures all_wire(a + b) {}
pub proof fn lemma_fld_wire(a: u32, b: u32) ensures all_wire(fld(a, b)) { lemma_vlq_wire(zz(a as int, b as int)); }
pub proof fn lemma_enc_bytes_wire(s: ES, m: Mapping) ensures all_wire(enc_bytes(s, m))
{
  if !dropped(s, m) {
    let col0 = if s.line < m.generated_line { 0u32 } else { s.col };
    assert(all_wire(sep_bytes(s, m)));
    lemma_fld_wire(m.generated_column, col0);
    match m.original {
      Some(o) => {
        lemma_fld_wire(o.source_index, s.si); lemma_fld_wire(o.original_line, s.ol); lemma_fld_wire(o.original_column, s.oc);
        match o.name_index { Some(n) => { lemma_fld_wire(n, s.ni); }, None => {} }
        lemma_wire_concat(fld(o.source_index, s.si), fld(o.original_line, s.ol));
        lemma_wire_concat(fld(o.source_index, s.si) + fld(o.original_line, s.ol), fld(o.original_column, s.oc));
        lemma_wire_concat(fld(o.source_index, s.si) + fld(o.original_line, s.ol) + fld(o.original_column, s.oc), (match o.name_index { Some(n) => fld(n, s.ni), None => Seq::<u8>::empty() }));
      },
      None => {},
    }
    lemma_wire_concat(sep_bytes(s, m), fld(m.generated_column, col0));
    lemma_wire_concat(sep_bytes(s, m) + fld(m.generated_column, col0), orig_bytes(s, m));
  }
}

pub proof fn lemma_fld_plus1(x: u32) requires x < lim() ensures fld((x + 1) as u32, x) == seq![67u8]
{ assert(zz(x as int + 1, x as int) == 2); reveal_with_fuel(vlq_digits, 2); assert(vlq_digits(2) =~= seq![67u8]); }

pub proof fn lemma_semis_push(b: Seq<u8>, i: nat) ensures b + semis(i) + seq![59u8] == b + semis(i + 1)
{ assert(b + semis(i) + seq![59u8] =~= b + semis(i + 1)); }
pub proof fn lemma_fld_same_all() ensures forall|x: u32| #[trigger] fld(x, x) == seq![65u8]
{ assert forall|x: u32| #[trigger] fld(x, x) == seq![65u8] by { lemma_fld_same(x); } }
pub proof fn lemma_enc_facts(s: ES, m: Mapping)
  ensures forall|x: u32| #[trigger] fld(x, x) == seq![65u8]
{ lemma_fld_same_all(); }
pub proof fn lemma_lines_facts(l0: LS, m: Mapping)
  requires ls_inv(l0)
  ensures
    !lines_skip(l0, m) ==> !dropped(es_of(l0), l_of(m)),
    forall|x: u32| #[trigger] fld(x, x) == seq![65u8],
    fld((l0.ol + 1) as u32, l0.ol) == seq![67u8],
{
  lemma_fld_same_all(); lemma_fld_plus1(l0.ol);
}

// prefixes of enc_bytes(s, m) used as proof checkpoints in FullMappingsEncoder::encode
pub open spec fn col0(s: ES, m: Mapping) -> u32 { if s.line < m.generated_line { 0u32 } else { s.col } }
pub open spec fn pfx1(s: ES, m: Mapping) -> Seq<u8> { sep_bytes(s, m) + fld(m.generated_column, col0(s, m)) }
pub open spec fn pfx2(s: ES, m: Mapping) -> Seq<u8> { pfx1(s, m) + fld(m.original->0.source_index, s.si) }
pub open spec fn pfx3(s: ES, m: Mapping) -> Seq<u8> { pfx2(s, m) + fld(m.original->0.original_line, s.ol) }
pub open spec fn pfx4(s: ES, m: Mapping) -> Seq<u8> { pfx3(s, m) + fld(m.original->0.original_column, s.oc) }
