// an ASCII byte of a UTF-8 text starts a character, and the next position is a character boundary too
proof fn lemma_ascii_boundary(chars: Seq<char>, i: int)
  requires 0 <= i < encode_utf8(chars).len(), encode_utf8(chars)[i] < 128
  ensures is_char_boundary(encode_utf8(chars), i)
{
  let b = encode_utf8(chars);
  encode_utf8_valid_utf8(chars);
  is_char_boundary_iff_not_is_continuation_byte(b, i);
  assert(!is_continuation_byte(b[i]));
}
proof fn lemma_ascii_next_boundary(chars: Seq<char>, i: int)
  requires 0 <= i < encode_utf8(chars).len(), encode_utf8(chars)[i] < 128
  ensures is_char_boundary(encode_utf8(chars), i + 1)
{
  let b = encode_utf8(chars);
  encode_utf8_valid_utf8(chars);
  lemma_ascii_boundary(chars, i);
  is_char_boundary_start_end_of_seq(b);
  if i + 1 < b.len() {
    let s = b.subrange(i, b.len() as int);
    valid_utf8_split(b, i);
    assert(valid_utf8(s));
    reveal_with_fuel(valid_utf8, 2);
    assert(s[0] == b[i]);
    assert(length_of_first_scalar(s) == 1);
    let s2 = pop_first_scalar(s);
    assert(valid_utf8(s2));
    assert(s2 =~= b.subrange(i + 1, b.len() as int));
    assert(s2.len() > 0);
    assert(valid_first_scalar(s2));
    assert(!is_continuation_byte(s2[0]));
    assert(s2[0] == b[i + 1]);
    is_char_boundary_iff_not_is_continuation_byte(b, i + 1);
  }
}
pub assume_specification[<char as From<u8>>::from](b: u8) -> (c: char)
  ensures c == b as char;
