pub open spec fn lseq(ls: LS, ms: Seq<Mapping>) -> Seq<Mapping>
  decreases ms.len()
{ if ms.len() == 0 { Seq::<Mapping>::empty() } else { (if lines_skip(ls, ms[0]) { Seq::<Mapping>::empty() } else { seq![l_of(ms[0])] }) + lseq(lines_state(ls, ms[0]), ms.skip(1)) } }
pub open spec fn lines_all(ls: LS, ms: Seq<Mapping>) -> Seq<u8>
  decreases ms.len()
{ if ms.len() == 0 { Seq::<u8>::empty() } else { lines_bytes(ls, ms[0]) + lines_all(lines_state(ls, ms[0]), ms.skip(1)) } }
pub open spec fn wf_lines(ls: LS, ms: Seq<Mapping>) -> bool
  decreases ms.len()
{ ms.len() == 0 || (m_in_dom(ms[0]) && ls.line <= ms[0].generated_line && wf_lines(lines_state(ls, ms[0]), ms.skip(1))) }
