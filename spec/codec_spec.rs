// ---------- spec layer for the mappings codec (pure Verus; no repository code) ----------

pub open spec fn b64(i: int) -> u8 {
  if i < 26 { (65 + i) as u8 } else if i < 52 { (97 + i - 26) as u8 } else if i < 62 { (48 + i - 52) as u8 } else if i == 62 { 43u8 } else { 47u8 }
}
// decoder table: sextet value, 0x40 for ',', 0x41 for ';', 0x42 otherwise
pub open spec fn tbl(c: u8) -> u8 {
  if 65 <= c <= 90 { (c - 65) as u8 } else if 97 <= c <= 122 { (c - 97 + 26) as u8 } else if 48 <= c <= 57 { (c - 48 + 52) as u8 }
  else if c == 43 { 62u8 } else if c == 47 { 63u8 } else if c == 44 { 0x40u8 } else if c == 59 { 0x41u8 } else { 0x42u8 }
}
pub proof fn lemma_tbl_b64(i: int) requires 0 <= i < 64 ensures tbl(b64(i)) == i {}

pub open spec fn vlq_digits(num: nat) -> Seq<u8>
  decreases num
{
  if num / 32 > 0 { seq![b64((num % 32 + 32) as int)] + vlq_digits(num / 32) } else { seq![b64((num % 32) as int)] }
}
pub open spec fn zz(a: int, b: int) -> nat { if a >= b { (2*(a-b)) as nat } else { (2*(b-a)+1) as nat } }

// ---------- decoder: byte-level reader ----------
pub struct DS { pub d: Seq<u32>, pub pos: usize, pub val: i64, pub vpos: usize, pub line: u32 }

pub open spec fn emit(pos: usize, line: u32, d: Seq<u32>) -> Option<Mapping> {
  if pos == 1 { Some(Mapping { generated_line: line, generated_column: d[0], original: None }) }
  else if pos == 4 { Some(Mapping { generated_line: line, generated_column: d[0], original: Some(OriginalLocation { source_index: d[1], original_line: d[2], original_column: d[3], name_index: None }) }) }
  else if pos == 5 { Some(Mapping { generated_line: line, generated_column: d[0], original: Some(OriginalLocation { source_index: d[1], original_line: d[2], original_column: d[3], name_index: Some(d[4]) }) }) }
  else { None }
}
pub open spec fn final_value(cv: i64) -> i64 { if (cv & 1) != 0 { (-(cv >> 1)) as i64 } else { cv >> 1 } }

pub open spec fn dec_byte(s: DS, c: u8) -> (DS, Option<Mapping>) {
  let v = tbl(c);
  if v == 0x42u8 { (s, None) }
  else if (v & 0x40u8) != 0 {
    let e = emit(s.pos, s.line, s.d);
    if v == 0x41u8 { (DS { pos: 0, line: (s.line + 1) as u32, d: s.d.update(0, 0u32), ..s }, e) }
    else { (DS { pos: 0, ..s }, e) }
  } else if (v & 0x20u8) == 0 {
    let cv = if s.vpos < 64 { s.val | ((v as i64) << s.vpos) } else { s.val };
    let fv = final_value(cv);
    let d2 = if s.pos < 5 { s.d.update(s.pos as int, ((s.d[s.pos as int] as i64 + fv) as u32)) } else { s.d };
    (DS { d: d2, pos: (s.pos + 1) as usize, val: 0, vpos: 0, ..s }, None)
  } else {
    if s.vpos < 64 { (DS { val: s.val | (((v & 0x1fu8) as i64) << s.vpos), vpos: (s.vpos + 5) as usize, ..s }, None) } else { (s, None) }
  }
}
// what one call of next() does: (result, state after, bytes consumed)
pub open spec fn dec_next(s: DS, bytes: Seq<u8>) -> (Option<Mapping>, DS, nat)
  decreases bytes.len()
{
  if bytes.len() == 0 { (emit(s.pos, s.line, s.d), DS { pos: 0, ..s }, 0) }
  else {
    let (s2, e) = dec_byte(s, bytes[0]);
    if e is Some { (e, s2, 1) } else { let (e3, s3, k) = dec_next(s2, bytes.skip(1)); (e3, s3, k + 1) }
  }
}
// ---------- encoder: the v3 writer ----------
pub struct ES { pub line: u32, pub col: u32, pub ol: u32, pub oc: u32, pub si: u32, pub ni: u32, pub am: bool, pub an: bool, pub init: bool }
pub open spec fn es0() -> ES { ES { line: 1, col: 0, ol: 1, oc: 0, si: 0, ni: 0, am: false, an: false, init: true } }

pub open spec fn dropped(s: ES, m: Mapping) -> bool {
  if s.am && s.line == m.generated_line {
    match m.original {
      Some(o) => o.source_index == s.si && o.original_line == s.ol && o.original_column == s.oc && !s.an && o.name_index is None,
      None => false,
    }
  } else { m.original is None }
}
pub open spec fn semis(n: nat) -> Seq<u8> { Seq::new(n, |i: int| 59u8) }
pub open spec fn sep_bytes(s: ES, m: Mapping) -> Seq<u8> {
  if s.line < m.generated_line { semis((m.generated_line - s.line) as nat) } else if s.init { Seq::<u8>::empty() } else { seq![44u8] }
}
pub open spec fn fld(a: u32, b: u32) -> Seq<u8> { vlq_digits(zz(a as int, b as int)) }
pub open spec fn orig_bytes(s: ES, m: Mapping) -> Seq<u8> {
  match m.original {
    Some(o) => fld(o.source_index, s.si) + fld(o.original_line, s.ol) + fld(o.original_column, s.oc)
               + (match o.name_index { Some(n) => fld(n, s.ni), None => Seq::<u8>::empty() }),
    None => Seq::<u8>::empty(),
  }
}
pub open spec fn enc_bytes(s: ES, m: Mapping) -> Seq<u8> {
  if dropped(s, m) { Seq::<u8>::empty() } else {
    let col0 = if s.line < m.generated_line { 0u32 } else { s.col };
    sep_bytes(s, m) + fld(m.generated_column, col0) + orig_bytes(s, m)
  }
}
pub open spec fn enc_state(s: ES, m: Mapping) -> ES {
  if dropped(s, m) { s } else {
    let s1 = ES { line: if s.line < m.generated_line { m.generated_line } else { s.line }, col: m.generated_column, init: false, ..s };
    match m.original {
      Some(o) => ES { am: true, si: o.source_index, ol: o.original_line, oc: o.original_column,
                      ni: (match o.name_index { Some(n) => n, None => s1.ni }), an: o.name_index is Some, ..s1 },
      None => ES { am: false, ..s1 },
    }
  }
}
pub open spec fn lim() -> int { 0x4000_0000 }
pub open spec fn m_in_dom(m: Mapping) -> bool {
  &&& 1 <= m.generated_line < lim() && m.generated_column < lim()
  &&& match m.original { Some(o) => o.source_index < lim() && o.original_line < lim() && o.original_column < lim()
        && (match o.name_index { Some(n) => n < lim(), None => true }), None => true }
}
pub open spec fn es_in_dom(s: ES) -> bool { 1 <= s.line < lim() && s.col < lim() && s.ol < lim() && s.oc < lim() && s.si < lim() && s.ni < lim() }
pub open spec fn is_wire(b: u8) -> bool { tbl(b) != 0x42u8 }
pub open spec fn all_wire(bs: Seq<u8>) -> bool { forall|i: int| 0 <= i < bs.len() ==> is_wire(#[trigger] bs[i]) }
pub open spec fn ds0() -> DS { DS { d: seq![0u32, 0u32, 1u32, 0u32, 0u32], pos: 0, val: 0, vpos: 0, line: 1 } }
