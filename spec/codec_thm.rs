// ---------- whole-string semantics and the round-trip theorem ----------











// simulation relation between writer state and reader state
pub open spec fn rel(s: ES, ds: DS) -> bool {
  &&& es_in_dom(s)
  &&& ds.d.len() == 5 && ds.d[0] == s.col && ds.d[1] == s.si && ds.d[2] == s.ol && ds.d[3] == s.oc && ds.d[4] == s.ni
  &&& ds.line == s.line && ds.val == 0 && ds.vpos == 0
  &&& (s.init ==> ds.pos == 0 && !s.am)
  &&& (!s.init ==> ds.pos == (if !s.am { 1usize } else if s.an { 5usize } else { 4usize }))
}

pub proof fn lemma_run_concat(s: DS, a: Seq<u8>, b: Seq<u8>)
  ensures dec_run(s, a + b) == ({ let (s2, e1) = dec_run(s, a); let (s3, e2) = dec_run(s2, b); (s3, e1 + e2) })
  decreases a.len()
{
  if a.len() == 0 {
    assert(a + b =~= b);
    let (s3, e2) = dec_run(s, b);
    assert(Seq::<Mapping>::empty() + e2 =~= e2);
  } else {
    let (s1, e) = dec_byte(s, a[0]);
    assert((a + b)[0] == a[0]);
    assert((a + b).skip(1) =~= a.skip(1) + b);
    lemma_run_concat(s1, a.skip(1), b);
    let (s2, e1) = dec_run(s1, a.skip(1));
    let (s3, e2) = dec_run(s2, b);
    assert(opt_seq(e) + (e1 + e2) =~= (opt_seq(e) + e1) + e2);
  }
}

pub proof fn lemma_run_digits(ds: DS, n: u64)
  requires ds.vpos <= 30, ds.vpos % 5 == 0, n < (1u64 << ((35 - ds.vpos) as u64)), ds.pos < 5, ds.d.len() == 5
  ensures dec_run(ds, vlq_digits(n as nat)) == (
      DS { d: ds.d.update(ds.pos as int, ((ds.d[ds.pos as int] as i64 + final_value(ds.val | ((n as i64) << ds.vpos))) as u32)),
           pos: (ds.pos + 1) as usize, val: 0, vpos: 0, ..ds },
      Seq::<Mapping>::empty())
  decreases n
{
  let d = (n % 32) as u8;
  let rest = (n / 32) as u64;
  let p = ds.vpos as u64;
  let val = ds.val;
  let digs = vlq_digits(n as nat);
  assert(n & 31 == n % 32 && n >> 5 == n / 32) by (bit_vector);
  if rest > 0 {
    let v = (d + 32) as u8;
    lemma_tbl_b64(v as int);
    assert((v & 0x20u8) != 0 && (v & 0x1fu8) == d && (v & 0x40u8) == 0 && v != 0x42u8) by (bit_vector) requires d < 32, v == d + 32;
    assert(rest < (1u64 << ((30 - p) as u64))) by (bit_vector) requires p <= 30, n < (1u64 << ((35 - p) as u64)), rest == n >> 5;
    assert(p < 30) by (bit_vector) requires p <= 30, n < (1u64 << ((35 - p) as u64)), (n >> 5) > 0;
    let ds2 = DS { val: val | ((d as i64) << ds.vpos), vpos: (ds.vpos + 5) as usize, ..ds };
    assert(dec_byte(ds, digs[0]) == (ds2, None::<Mapping>));
    assert(digs.skip(1) =~= vlq_digits(rest as nat));
    lemma_run_digits(ds2, rest);
    assert((val | ((d as i64) << p)) | ((rest as i64) << ((p + 5) as u64)) == val | ((n as i64) << p)) by (bit_vector)
      requires d as u64 == n & 31, rest == n >> 5, p <= 30, n < (1u64 << ((35 - p) as u64));
    let (s3, es) = dec_run(ds2, digs.skip(1));
    assert(opt_seq(None::<Mapping>) + es =~= es);
    assert(es =~= Seq::<Mapping>::empty());
    assert(dec_run(ds, digs) == (s3, es));
    assert(ds2.val | ((rest as i64) << ds2.vpos) == val | ((n as i64) << ds.vpos));

  } else {
    lemma_tbl_b64(d as int);
    assert((d & 0x20u8) == 0 && (d & 0x40u8) == 0 && d != 0x42u8) by (bit_vector) requires d < 32;
    assert(d as u64 == n);
    assert(digs.len() == 1);
    let (s2, e) = dec_byte(ds, digs[0]);
    assert(e is None);
    assert(digs.skip(1) =~= Seq::<u8>::empty());
    assert(opt_seq(None::<Mapping>) + Seq::<Mapping>::empty() =~= Seq::<Mapping>::empty());
    assert(dec_run(s2, digs.skip(1)) == (s2, Seq::<Mapping>::empty()));
    assert(dec_run(ds, digs) == (s2, Seq::<Mapping>::empty()));
    assert(s2.d == ds.d.update(ds.pos as int, ((ds.d[ds.pos as int] as i64 + final_value(ds.val | ((n as i64) << ds.vpos))) as u32)));
  }
}

pub proof fn lemma_run_fld(ds: DS, a: u32, b: u32)
  requires ds.pos < 5, ds.d.len() == 5, ds.d[ds.pos as int] == b, ds.val == 0, ds.vpos == 0, a < lim(), b < lim()
  ensures dec_run(ds, fld(a, b)) == (DS { d: ds.d.update(ds.pos as int, a), pos: (ds.pos + 1) as usize, ..ds }, Seq::<Mapping>::empty())
{
  let n = zz(a as int, b as int) as u64;
  assert(n < (1u64 << 35u64)) by (bit_vector) requires n < 0x1_0000_0000u64;
  lemma_run_digits(ds, n);
  let x: i64 = if a >= b { (a - b) as i64 } else { (b - a) as i64 };
  let ni = n as i64;
  assert(0i64 | (ni << 0usize) == ni) by (bit_vector);
  if a >= b {
    assert((ni & 1) == 0 && (ni >> 1) == x) by (bit_vector) requires ni == 2 * x, 0 <= x < 0x8000_0000i64;
  } else {
    assert((ni & 1) == 1 && (ni >> 1) == x) by (bit_vector) requires ni == 2 * x + 1, 0 <= x < 0x8000_0000i64;
  }
  assert(final_value(ds.val | ((n as i64) << ds.vpos)) == a as int - b as int);
}

pub proof fn lemma_run_empty(ds: DS) ensures dec_run(ds, Seq::<u8>::empty()) == (ds, Seq::<Mapping>::empty()) {}

pub proof fn lemma_run_semis(ds: DS, k: nat)
  requires k >= 1, ds.d.len() == 5, ds.line + k <= u32::MAX
  ensures dec_run(ds, semis(k)) == (DS { pos: 0, line: (ds.line + k) as u32, d: ds.d.update(0, 0u32), ..ds }, opt_seq(pend(ds)))
  decreases k
{
  let bs = semis(k);
  assert(bs[0] == 59u8);
  assert((0x41u8 & 0x40u8) != 0) by (bit_vector);
  let ds1 = DS { pos: 0, line: (ds.line + 1) as u32, d: ds.d.update(0, 0u32), ..ds };
  assert(dec_byte(ds, bs[0]) == (ds1, pend(ds)));
  assert(bs.skip(1) =~= semis((k - 1) as nat));
  if k == 1 {
    lemma_run_empty(ds1);
    assert(opt_seq(pend(ds)) + Seq::<Mapping>::empty() =~= opt_seq(pend(ds)));
    assert(dec_run(ds1, bs.skip(1)) == (ds1, Seq::<Mapping>::empty()));
    assert(dec_run(ds, bs) == (ds1, opt_seq(pend(ds)) + Seq::<Mapping>::empty()));
  } else {
    lemma_run_semis(ds1, (k - 1) as nat);
    assert(pend(ds1) is None);
    assert(opt_seq(pend(ds1)) =~= Seq::<Mapping>::empty());
    let (s3, es) = dec_run(ds1, bs.skip(1));
    assert(es =~= Seq::<Mapping>::empty());
    assert(dec_run(ds, bs) == (s3, opt_seq(pend(ds)) + es));
    assert(opt_seq(pend(ds)) + es =~= opt_seq(pend(ds)));
    assert(ds1.d.update(0, 0u32) =~= ds1.d);
    assert(opt_seq(pend(ds)) + opt_seq(pend(ds1)) =~= opt_seq(pend(ds)));
  }
}
pub proof fn lemma_run_comma(ds: DS)
  ensures dec_run(ds, seq![44u8]) == (DS { pos: 0, ..ds }, opt_seq(pend(ds)))
{
  assert((0x40u8 & 0x40u8) != 0) by (bit_vector);
  let ds1 = DS { pos: 0, ..ds };
  assert(dec_byte(ds, seq![44u8][0]) == (ds1, pend(ds)));
  assert(seq![44u8].skip(1) =~= Seq::<u8>::empty());
  lemma_run_empty(ds1);
  assert(opt_seq(pend(ds)) + Seq::<Mapping>::empty() =~= opt_seq(pend(ds)));
}

pub proof fn lemma_step(s: ES, ds: DS, m: Mapping)
  requires rel(s, ds), m_in_dom(m), s.line <= m.generated_line, !dropped(s, m)
  ensures ({ let (ds2, es) = dec_run(ds, enc_bytes(s, m)); es == opt_seq(pend(ds)) && rel(enc_state(s, m), ds2) && pend(ds2) == Some(m) })
{
  let col0 = if s.line < m.generated_line { 0u32 } else { s.col };
  let sep = sep_bytes(s, m);
  let fgc = fld(m.generated_column, col0);
  let ob = orig_bytes(s, m);
  // separator
  let (d1, e1) = dec_run(ds, sep);
  if s.line < m.generated_line { lemma_run_semis(ds, (m.generated_line - s.line) as nat); }
  else if s.init { lemma_run_empty(ds); assert(pend(ds) is None); }
  else { lemma_run_comma(ds); }
  assert(e1 == opt_seq(pend(ds)));
  assert(d1.pos == 0 && d1.line == m.generated_line && d1.d[0] == col0 && d1.val == 0 && d1.vpos == 0 && d1.d.len() == 5);
  assert(d1.d[1] == s.si && d1.d[2] == s.ol && d1.d[3] == s.oc && d1.d[4] == s.ni);
  // generated column
  lemma_run_fld(d1, m.generated_column, col0);
  let (d2, e2) = dec_run(d1, fgc);
  lemma_run_concat(ds, sep, fgc);
  assert(e1 + e2 =~= e1);
  match m.original {
    None => {
      assert(ob =~= Seq::<u8>::empty());
      assert(sep + fgc + ob =~= sep + fgc);
    },
    Some(o) => {
      let f1 = fld(o.source_index, s.si); let f2 = fld(o.original_line, s.ol); let f3 = fld(o.original_column, s.oc);
      let f4 = match o.name_index { Some(n) => fld(n, s.ni), None => Seq::<u8>::empty() };
      lemma_run_fld(d2, o.source_index, s.si);
      let (d3, e3) = dec_run(d2, f1);
      lemma_run_fld(d3, o.original_line, s.ol);
      let (d4, e4) = dec_run(d3, f2);
      lemma_run_fld(d4, o.original_column, s.oc);
      let (d5, e5) = dec_run(d4, f3);
      lemma_run_concat(d2, f1, f2);
      lemma_run_concat(d2, f1 + f2, f3);
      assert(e3 + e4 + e5 =~= Seq::<Mapping>::empty());
      match o.name_index {
        Some(n) => { lemma_run_fld(d5, n, s.ni); },
        None => { lemma_run_empty(d5); },
      }
      lemma_run_concat(d2, f1 + f2 + f3, f4);
      assert(ob == f1 + f2 + f3 + f4);
      lemma_run_concat(ds, sep + fgc, ob);
      let (d6, e6) = dec_run(d5, f4);
      assert(e6 =~= Seq::<Mapping>::empty());
      assert(e1 + Seq::<Mapping>::empty() =~= e1);
    },
  }
}

pub proof fn lemma_enc_state_dom(s: ES, m: Mapping)
  requires es_in_dom(s), m_in_dom(m), s.line <= m.generated_line
  ensures es_in_dom(enc_state(s, m)), s.line <= enc_state(s, m).line <= m.generated_line || dropped(s, m)
{}

pub proof fn lemma_rt(s: ES, ds: DS, ms: Seq<Mapping>)
  requires rel(s, ds), wf(s, ms)
  ensures dec_all(ds, enc_all(s, ms)) == opt_seq(pend(ds)) + kept(s, ms)
  decreases ms.len()
{
  if ms.len() == 0 {
    lemma_run_empty(ds);
    assert(Seq::<Mapping>::empty() + opt_seq(pend(ds)) =~= opt_seq(pend(ds)) + Seq::<Mapping>::empty());
  } else {
    let m = ms[0]; let rest = ms.skip(1);
    let s2 = enc_state(s, m);
    if dropped(s, m) {
      assert(enc_bytes(s, m) + enc_all(s2, rest) =~= enc_all(s, rest));
      lemma_rt(s, ds, rest);
      assert(Seq::<Mapping>::empty() + kept(s, rest) =~= kept(s, rest));
    } else {
      lemma_step(s, ds, m);
      let (ds2, e1) = dec_run(ds, enc_bytes(s, m));
      lemma_rt(s2, ds2, rest);
      lemma_run_concat(ds, enc_bytes(s, m), enc_all(s2, rest));
      let (ds3, e2) = dec_run(ds2, enc_all(s2, rest));
      // dec_all(ds, bytes) = (e1 + e2) + pend(ds3);  IH: e2 + pend(ds3) = [m] + kept(s2, rest)
      assert((e1 + e2) + opt_seq(pend(ds3)) =~= e1 + (e2 + opt_seq(pend(ds3))));
      assert(e1 + (seq![m] + kept(s2, rest)) =~= opt_seq(pend(ds)) + (seq![m] + kept(s2, rest)));
    }
  }
}

/// THEOREM C12/6: decoding what the full encoder writes yields exactly the kept segments.
pub proof fn theorem_roundtrip(ms: Seq<Mapping>)
  requires wf(es0(), ms)
  ensures dec_all(ds0(), enc_all(es0(), ms)) == kept(es0(), ms)
{
  lemma_rt(es0(), ds0(), ms);
  assert(pend(ds0()) is None);
  assert(Seq::<Mapping>::empty() + kept(es0(), ms) =~= kept(es0(), ms));
}

// ---------- the iterator protocol yields dec_all ----------


pub proof fn lemma_iter_is_all(s: DS, bytes: Seq<u8>)
  ensures dec_iter(s, bytes) == dec_all(s, bytes)
  decreases bytes.len(), s.pos
{
  lemma_next_bounds(s, bytes);
  if bytes.len() == 0 {
    lemma_run_empty(s);
    let s0 = DS { pos: 0, ..s };
    assert(Seq::<Mapping>::empty() + opt_seq(pend(s)) =~= opt_seq(pend(s)));
    match pend(s) {
      None => {},
      Some(m) => {
        assert(bytes.skip(0) =~= bytes);
        lemma_run_empty(s0);
        assert(pend(s0) is None);
        assert(dec_iter(s0, bytes) =~= Seq::<Mapping>::empty());
        assert(seq![m] + Seq::<Mapping>::empty() =~= seq![m]);
      },
    }
  } else {
    let (s2, e) = dec_byte(s, bytes[0]);
    let rest = bytes.skip(1);
    let (s3, es) = dec_run(s2, rest);
    assert((opt_seq(e) + es) + opt_seq(pend(s3)) =~= opt_seq(e) + (es + opt_seq(pend(s3))));
    lemma_iter_is_all(s2, rest);
    if e is Some {
    } else {
      let (e3, s4, k) = dec_next(s2, rest);
      lemma_next_bounds(s2, rest);
      assert(rest.skip(k as int) =~= bytes.skip((k + 1) as int));
      assert(opt_seq(e) + dec_all(s2, rest) =~= dec_all(s2, rest));
    }
  }
}

// ---------- re-encoding what was decoded gives the same string ----------
pub proof fn lemma_enc_kept(s: ES, ms: Seq<Mapping>)
  ensures enc_all(s, kept(s, ms)) == enc_all(s, ms)
  decreases ms.len()
{
  if ms.len() > 0 {
    let m = ms[0]; let rest = ms.skip(1); let s2 = enc_state(s, m);
    lemma_enc_kept(s2, rest);
    if dropped(s, m) {
      assert(Seq::<Mapping>::empty() + kept(s2, rest) =~= kept(s, rest));
      assert(enc_bytes(s, m) + enc_all(s2, rest) =~= enc_all(s, rest));
    } else {
      let k = seq![m] + kept(s2, rest);
      assert(k[0] == m && k.skip(1) =~= kept(s2, rest));
    }
  }
}

// ---------- attribution: dropping changes no lookup ----------
pub open spec fn orig_of(s: ES) -> Option<OriginalLocation> {
  if s.am { Some(OriginalLocation { source_index: s.si, original_line: s.ol, original_column: s.oc, name_index: if s.an { Some(s.ni) } else { None } }) } else { None }
}
/// attribution of position (l, c): the last segment in sequence order on line l at or before column c
pub open spec fn look(ms: Seq<Mapping>, l: u32, c: u32, cur: Option<OriginalLocation>) -> Option<OriginalLocation>
  decreases ms.len()
{
  if ms.len() == 0 { cur } else {
    let m = ms[0];
    look(ms.skip(1), l, c, if m.generated_line == l && m.generated_column <= c { m.original } else { cur })
  }
}
pub open spec fn wf2(s: ES, ms: Seq<Mapping>) -> bool
  decreases ms.len()
{
  ms.len() == 0 || (m_in_dom(ms[0]) && s.line <= ms[0].generated_line
    && (!s.init && s.line == ms[0].generated_line ==> s.col <= ms[0].generated_column)
    && wf2(enc_state(s, ms[0]), ms.skip(1)))
}
pub proof fn lemma_look_kept(s: ES, ms: Seq<Mapping>, l: u32, c: u32, cur: Option<OriginalLocation>)
  requires wf2(s, ms), s.init ==> !s.am,
     (s.line > l) || (!s.init && s.line == l && s.col > c) || cur == (if !s.init && s.line == l { orig_of(s) } else { None::<OriginalLocation> })
  ensures look(kept(s, ms), l, c, cur) == look(ms, l, c, cur)
  decreases ms.len()
{
  if ms.len() > 0 {
    let m = ms[0]; let rest = ms.skip(1); let s2 = enc_state(s, m);
    let hit = m.generated_line == l && m.generated_column <= c;
    let cur2 = if hit { m.original } else { cur };
    if dropped(s, m) {
      assert(Seq::<Mapping>::empty() + kept(s2, rest) =~= kept(s, rest));
      assert(cur2 == cur);
      lemma_look_kept(s, rest, l, c, cur);
    } else {
      let k = seq![m] + kept(s2, rest);
      assert(k[0] == m && k.skip(1) =~= kept(s2, rest));
      assert(orig_of(s2) == m.original);
      lemma_look_kept(s2, rest, l, c, cur2);
    }
  }
}
/// THEOREM C12/7: every position is attributed by the kept segments exactly as by the input.
pub proof fn theorem_attribution(ms: Seq<Mapping>, l: u32, c: u32)
  requires wf2(es0(), ms)
  ensures look(kept(es0(), ms), l, c, None) == look(ms, l, c, None)
{
  lemma_look_kept(es0(), ms, l, c, None);
}
