// std functions a harmless refactoring may reach for and vstd does not specify (documented behaviour)
pub assume_specification<T>[core::mem::replace::<T>](dest: &mut T, src: T) -> (r: T)
  ensures r == *old(dest), *final(dest) == src;
pub assume_specification[i64::wrapping_neg](a: i64) -> (r: i64)
  ensures r == (if a == i64::MIN { a } else { (-a) as i64 });
