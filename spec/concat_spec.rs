// ---- C07: the content views of a ConcatSource against its children's (spec/concat_spec.rs) ----
// D5: trait `Source` reduced to the four content views this unit calls, with two spec views per source: `text()` (what source() and
//     rope() denote) and `raw()` (what buffer() holds and size() counts) - for a UTF-8 leaf they coincide, for a binary leaf text() is
//     the lossy decoding of raw().  The contracts on the trait ARE property C07 for the children: the unit proves that a ConcatSource
//     over children that satisfy C07 satisfies C07 itself and denotes the concatenation - the induction step over the source tree.
// D6: `Rope` as an opaque type with the contracts of new / append that unit rope_core proves on the real src/rope.rs.
pub uninterp spec fn cow_target<'a, 'b, B: ?Sized + ToOwned>(c: &'b Cow<'a, B>) -> &'b B;
pub assume_specification<'a, 'b, B: ?Sized + ToOwned>[<Cow<'a, B> as std::ops::Deref>::deref](c: &'b Cow<'a, B>) -> (r: &'b B)
  ensures r == cow_target(c);
/// the text a Cow<str> / the bytes a Cow<[u8]> holds (std: deref of Borrowed(b) is b, of Owned(o) is o.borrow())
pub open spec fn cow_str_bytes(c: &Cow<str>) -> Seq<u8> { match c { Cow::Borrowed(b) => b.spec_bytes(), Cow::Owned(s) => encode_utf8(s@) } }
pub open spec fn cow_bytes(c: &Cow<[u8]>) -> Seq<u8> { match c { Cow::Borrowed(b) => b@, Cow::Owned(v) => v@ } }
pub broadcast axiom fn axiom_cow_str_deref(c: &Cow<str>) ensures #[trigger] cow_target::<str>(c).spec_bytes() == cow_str_bytes(c);
pub broadcast axiom fn axiom_cow_bytes_deref(c: &Cow<[u8]>) ensures #[trigger] cow_target::<[u8]>(c)@ == cow_bytes(c);
pub proof fn lemma_str_bytes(s: &str) ensures encode_utf8(s@) == s.spec_bytes() { broadcast use {vstd::string::group_string_axioms, vstd::utf8::group_utf8_lib}; }
pub proof fn lemma_empty_string(c: Seq<char>) requires c.len() == 0 ensures encode_utf8(c) == Seq::<u8>::empty()
{ broadcast use vstd::utf8::group_utf8_lib; assert(c =~= Seq::<char>::empty()); assert(encode_utf8(Seq::<char>::empty()) =~= Seq::<u8>::empty()); }
#[verifier::external_body]
pub struct Rope<'a> { _p: std::marker::PhantomData<&'a str> }
impl<'a> Rope<'a> {
  pub uninterp spec fn chars(&self) -> Seq<char>;
  pub open spec fn bytes(&self) -> Seq<u8> { encode_utf8(self.chars()) }
  pub uninterp spec fn wf(&self) -> bool;
  #[verifier::external_body]
  pub fn new() -> (r: Self) ensures r.wf(), r.bytes() == Seq::<u8>::empty() { unimplemented!() }
  #[verifier::external_body]
  pub fn append(&mut self, value: Rope<'a>)
    requires old(self).wf(), value.wf(), old(self).bytes().len() + value.bytes().len() <= usize::MAX
    ensures final(self).wf(), final(self).bytes() == old(self).bytes() + value.bytes() { unimplemented!() }
}
pub trait Source {
  spec fn text(&self) -> Seq<u8>;
  spec fn raw(&self) -> Seq<u8>;
  fn source(&self) -> (r: Cow<str>) ensures cow_str_bytes(&r) == self.text();
  fn rope(&self) -> (r: Rope<'_>) ensures r.wf(), r.bytes() == self.text();
  fn buffer(&self) -> (r: Cow<[u8]>) ensures cow_bytes(&r) == self.raw();
  fn size(&self) -> (n: usize) ensures n == self.raw().len();
}
pub type BoxSource = Arc<dyn Source>;
/// std: `impl AsRef<T> for Arc<T>`: a reference to the value behind the Arc
pub assume_specification<T: ?Sized, A: std::alloc::Allocator>[<Arc<T, A> as AsRef<T>>::as_ref](a: &Arc<T, A>) -> (r: &T)
  ensures r == &**a;
pub open spec fn texts(c: Seq<BoxSource>) -> Seq<u8> decreases c.len() { if c.len() == 0 { Seq::<u8>::empty() } else { texts(c.drop_last()) + c.last().text() } }
pub open spec fn raws(c: Seq<BoxSource>) -> Seq<u8> decreases c.len() { if c.len() == 0 { Seq::<u8>::empty() } else { raws(c.drop_last()) + c.last().raw() } }
pub proof fn lemma_texts_take(c: Seq<BoxSource>, i: int)
  requires 0 <= i < c.len()
  ensures texts(c.take(i + 1)) == texts(c.take(i)) + c[i].text(), texts(c.take(i + 1)).len() <= texts(c).len()
  decreases c.len() - i
{ assert(c.take(i + 1).drop_last() =~= c.take(i)); if i + 1 == c.len() { assert(c.take(i + 1) =~= c); } else { lemma_texts_take(c, i + 1); } }
pub proof fn lemma_raws_take(c: Seq<BoxSource>, i: int)
  requires 0 <= i < c.len()
  ensures raws(c.take(i + 1)) == raws(c.take(i)) + c[i].raw(), raws(c.take(i + 1)).len() <= raws(c).len()
  decreases c.len() - i
{ assert(c.take(i + 1).drop_last() =~= c.take(i)); if i + 1 == c.len() { assert(c.take(i + 1) =~= c); } else { lemma_raws_take(c, i + 1); } }
pub proof fn lemma_cat_one(c: Seq<BoxSource>)
  requires c.len() == 1
  ensures texts(c) == c[0].text(), raws(c) == c[0].raw()
{ assert(c.drop_last() =~= Seq::<BoxSource>::empty()); assert(texts(c.drop_last()) =~= Seq::<u8>::empty()); assert(raws(c.drop_last()) =~= Seq::<u8>::empty());
  assert(texts(c) =~= c[0].text()); assert(raws(c) =~= c[0].raw()); }
// ---- leaves (base cases of the induction): specs of the std functions their one-line views call ----
/// std: a String's bytes are the UTF-8 encoding of its chars; `len` is their number (vstd specifies both for `str` only)
pub assume_specification[std::string::String::as_bytes](s: &String) -> (r: &[u8]) ensures r@ == encode_utf8(s@);
pub assume_specification[std::string::String::len](s: &String) -> (n: usize) ensures n == encode_utf8(s@).len();
/// a `str` is at most usize::MAX bytes long (vstd's `str::len` is `spec_bytes().len() as usize`; same axiom as in spec/rope_spec.rs)
pub broadcast axiom fn axiom_str_len_bound(s: &str) ensures #[trigger] s.spec_bytes().len() <= usize::MAX;
impl<'a> Rope<'a> {
  /// D6: `impl From<&'a String> for Rope<'a>` and `impl From<&'a Cow<'a, str>> for Rope<'a>` (src/rope.rs: `Rope { repr: Repr::Light(value) }`, the
  /// single-piece rope over that string), named as inherent functions of the opaque type; both contracts are PROVED on the real impls by unit rope_build
  #[verifier::external_body]
  pub fn from_string(value: &'a String) -> (r: Self) ensures r.wf(), r.bytes() == encode_utf8(value@) { unimplemented!() }
  #[verifier::external_body]
  pub fn from_cow(value: &'a Cow<'a, str>) -> (r: Self) ensures r.wf(), r.bytes() == cow_str_bytes(value) { unimplemented!() }
}
// ---- RawBufferSource: the lazily decoded text (std::sync::OnceLock) ----
#[verifier::external_type_specification]
#[verifier::external_body]
#[verifier::reject_recursive_types(T)]
pub struct ExOnceLock<T>(std::sync::OnceLock<T>);
/// what the cell holds (interior mutability: `get_or_init` fills it through `&self`; the contract only says what the call returns)
pub uninterp spec fn lock_val<T>(c: &std::sync::OnceLock<T>) -> Option<T>;
pub assume_specification<T, F: FnOnce() -> T>[std::sync::OnceLock::<T>::get_or_init](c: &std::sync::OnceLock<T>, f: F) -> (r: &T)
  requires lock_val(c) is None ==> f.requires(()),
  ensures lock_val(c) is Some ==> *r == lock_val(c)->0, lock_val(c) is None ==> f.ensures((), *r);
/// the lossy UTF-8 decoding of a byte string, as bytes (std: String::from_utf8_lossy); uninterpreted: the views only have to agree on it
pub uninterp spec fn lossy(b: Seq<u8>) -> Seq<u8>;
/// W2: stands for `String::from_utf8_lossy(v).to_string()`
#[verifier::external_body]
pub fn lossy_string(v: &Vec<u8>) -> (r: String) ensures encode_utf8(r@) == lossy(v@) { String::from_utf8_lossy(v).to_string() }
