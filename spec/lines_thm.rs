




pub proof fn lemma_lines_as_full(ls: LS, ms: Seq<Mapping>)
  requires ls_inv(ls), wf_lines(ls, ms)
  ensures lines_all(ls, ms) == enc_all(es_of(ls), lseq(ls, ms)),
          kept(es_of(ls), lseq(ls, ms)) == lseq(ls, ms),
          wf(es_of(ls), lseq(ls, ms))
  decreases ms.len()
{
  if ms.len() > 0 {
    let m = ms[0]; let rest = ms.skip(1); let ls2 = lines_state(ls, m);
    lemma_lines_as_full(ls2, rest);
    if lines_skip(ls, m) {
      assert(Seq::<Mapping>::empty() + lseq(ls2, rest) =~= lseq(ls, rest));
      assert(Seq::<u8>::empty() + lines_all(ls2, rest) =~= lines_all(ls, rest));
    } else {
      let lm = l_of(m);
      let q = seq![lm] + lseq(ls2, rest);
      assert(q[0] == lm && q.skip(1) =~= lseq(ls2, rest));
      assert(!dropped(es_of(ls), lm));
      assert(enc_state(es_of(ls), lm) == es_of(ls2));
      assert(m_in_dom(lm));
    }
  }
}
/// THEOREM C12/9: decoding the lines-only output yields the first mapped segment of each line,
/// at column 0, original column 0, without name.
pub proof fn theorem_lines_only(ms: Seq<Mapping>)
  requires wf_lines(ls0(), ms)
  ensures dec_all(ds0(), lines_all(ls0(), ms)) == lseq(ls0(), ms)
{
  lemma_lines_as_full(ls0(), ms);
  assert(es_of(ls0()) == es0());
  theorem_roundtrip(lseq(ls0(), ms));
}
