// ---- spec: the reference replacement model, written from the property statement (C05) ----
pub struct RS { pub start: u32, pub end: u32, pub content: Seq<u8> }
pub open spec fn min2(a: int, b: int) -> int { if a < b { a } else { b } }
pub open spec fn max2(a: int, b: int) -> int { if a > b { a } else { b } }
/// before each replacement the not-yet-consumed inner text up to its start is copied, then its content is
/// emitted, then everything up to its end counts as consumed; positions beyond the end are clamped.
pub open spec fn splice(inner: Seq<u8>, rs: Seq<RS>, pos: int) -> Seq<u8>
  decreases rs.len()
{
  if rs.len() == 0 { inner.subrange(pos, inner.len() as int) }
  else {
    let r = rs[0];
    (if pos < r.start { inner.subrange(pos, min2(r.start as int, inner.len() as int)) } else { Seq::<u8>::empty() })
      + r.content
      + splice(inner, rs.skip(1), min2(max2(pos, r.end as int), inner.len() as int))
  }
}
/// positions are on char boundaries of the inner text or beyond its end
pub open spec fn pos_ok(inner: Seq<u8>, p: u32) -> bool { p >= inner.len() || is_char_boundary(inner, p as int) }

pub assume_specification<I: SliceIndex<str>>[<str as Index<I>>::index](s: &str, r: I) -> (out: &<I as SliceIndex<str>>::Output)
  ensures r.index_postcondition(s, out);

pub uninterp spec fn cow_target<'a, 'b, B: ?Sized + ToOwned>(c: &'b Cow<'a, B>) -> &'b B;
pub assume_specification<'a, 'b, B: ?Sized + ToOwned>[<Cow<'a, B> as std::ops::Deref>::deref](c: &'b Cow<'a, B>) -> (r: &'b B)
  ensures r == cow_target(c);

#[verifier::reject_recursive_types(T)]
#[verifier::external_type_specification]
#[verifier::external_body]
pub struct ExMutex<T: ?Sized>(std::sync::Mutex<T>);
// `String -> Cow<str>` conversion (`.into()` resolves to this `From` impl): the Cow holds that string.
pub assume_specification<'a>[<Cow<'a, str> as From<String>>::from](s: String) -> (c: Cow<'a, str>)
  ensures cow_target(&c)@ == s@;
// ---- ReplaceSource::buffer (C07): what a Cow holds, as a function of its variant (std: deref of Borrowed(b) is b, of Owned(o) is o.borrow()) ----
pub open spec fn cow_str_bytes(c: &Cow<str>) -> Seq<u8> { match c { Cow::Borrowed(b) => b.spec_bytes(), Cow::Owned(s) => encode_utf8(s@) } }
pub open spec fn cow_bytes(c: &Cow<[u8]>) -> Seq<u8> { match c { Cow::Borrowed(b) => b@, Cow::Owned(v) => v@ } }
pub broadcast axiom fn axiom_cow_str_deref(c: &Cow<str>) ensures #[trigger] cow_target::<str>(c).spec_bytes() == cow_str_bytes(c);
/// std: `String::into_bytes` returns the string's UTF-8 bytes
pub assume_specification[std::string::String::into_bytes](s: String) -> (r: Vec<u8>) ensures r@ == encode_utf8(s@);
