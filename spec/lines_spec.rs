pub struct LS { pub lw: u32, pub line: u32, pub si: u32, pub ol: u32 }
pub open spec fn ls0() -> LS { LS { lw: 0, line: 1, si: 0, ol: 1 } }
pub open spec fn ls_inv(ls: LS) -> bool { (ls.lw == 0 || ls.lw == ls.line) && 1 <= ls.line < lim() && ls.si < lim() && ls.ol < lim() }
pub open spec fn l_of(m: Mapping) -> Mapping {
  Mapping { generated_line: m.generated_line, generated_column: 0,
    original: Some(OriginalLocation { source_index: m.original->0.source_index, original_line: m.original->0.original_line, original_column: 0, name_index: None }) }
}
pub open spec fn es_of(ls: LS) -> ES { ES { line: ls.line, col: 0, ol: ls.ol, oc: 0, si: ls.si, ni: 0, am: ls.lw != 0, an: false, init: ls.lw == 0 } }
pub open spec fn lines_skip(ls: LS, m: Mapping) -> bool { m.original is None || ls.lw == m.generated_line }
pub open spec fn lines_bytes(ls: LS, m: Mapping) -> Seq<u8> { if lines_skip(ls, m) { Seq::<u8>::empty() } else { enc_bytes(es_of(ls), l_of(m)) } }
pub open spec fn lines_state(ls: LS, m: Mapping) -> LS {
  if lines_skip(ls, m) { ls } else { LS { lw: m.generated_line, line: m.generated_line, si: m.original->0.source_index, ol: m.original->0.original_line } }
}
