// ---------- whole-string semantics (spec functions shared by the theorems and the client lemmas) ----------
pub open spec fn opt_seq(e: Option<Mapping>) -> Seq<Mapping> { match e { Some(m) => seq![m], None => Seq::<Mapping>::empty() } }
pub open spec fn pend(s: DS) -> Option<Mapping> { emit(s.pos, s.line, s.d) }
pub open spec fn dec_run(s: DS, bytes: Seq<u8>) -> (DS, Seq<Mapping>)
  decreases bytes.len()
{
  if bytes.len() == 0 { (s, Seq::<Mapping>::empty()) }
  else { let (s2, e) = dec_byte(s, bytes[0]); let (s3, es) = dec_run(s2, bytes.skip(1)); (s3, opt_seq(e) + es) }
}
pub open spec fn dec_all(s: DS, bytes: Seq<u8>) -> Seq<Mapping> { let (s2, es) = dec_run(s, bytes); es + opt_seq(pend(s2)) }
pub open spec fn enc_all(s: ES, ms: Seq<Mapping>) -> Seq<u8>
  decreases ms.len()
{ if ms.len() == 0 { Seq::<u8>::empty() } else { enc_bytes(s, ms[0]) + enc_all(enc_state(s, ms[0]), ms.skip(1)) } }
pub open spec fn kept(s: ES, ms: Seq<Mapping>) -> Seq<Mapping>
  decreases ms.len()
{ if ms.len() == 0 { Seq::<Mapping>::empty() } else { (if dropped(s, ms[0]) { Seq::<Mapping>::empty() } else { seq![ms[0]] }) + kept(enc_state(s, ms[0]), ms.skip(1)) } }
pub open spec fn wf(s: ES, ms: Seq<Mapping>) -> bool
  decreases ms.len()
{ ms.len() == 0 || (m_in_dom(ms[0]) && s.line <= ms[0].generated_line && wf(enc_state(s, ms[0]), ms.skip(1))) }
pub open spec fn dec_iter(s: DS, bytes: Seq<u8>) -> Seq<Mapping>
  decreases bytes.len(), s.pos
{
  let (e, s2, k) = dec_next(s, bytes);
  match e {
    None => Seq::<Mapping>::empty(),
    Some(m) => if k <= bytes.len() && (k >= 1 || s2.pos < s.pos) { seq![m] + dec_iter(s2, bytes.skip(k as int)) } else { seq![m] },
  }
}
