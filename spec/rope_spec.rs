// ---- spec: a rope denotes the concatenation of its pieces (C16); written from the property statement ----
// trusted facts about std that vstd does not state (each listed in the evidence as an assumption)
pub mod rope_ax {
  use vstd::prelude::*;
  use vstd::string::StringSliceAdditionalSpecFns;
  /// a `str` is never longer than isize::MAX bytes (Rust allocation rule); vstd's `str::len` is `spec_bytes().len() as usize`
  /// a Vec never holds more than usize::MAX elements (`Vec::len` returns usize)
  pub axiom fn axiom_vec_len_bound<T>(v: &Vec<T>)
    ensures v@.len() <= usize::MAX;
  /// std: `Display for &T` forwards to `T`, and `Display for str` writes the string (vstd states the latter as
  /// to_string_from_display_ensures_for_str); `to_string()` on a `&&str` goes through the blanket `ToString for T: Display`
  pub broadcast axiom fn axiom_to_string_ref_str(s: &&str, res: String)
    ensures #[trigger] vstd::string::to_string_from_display_ensures::<&str>(s, res) ==> res@ == (*s)@;
  /// std: `impl PartialEq<[U]> for [T]` compares lengths and elements; for u8 that is equality of the byte sequences
  pub broadcast axiom fn axiom_u8_slice_eq(a: &[u8], b: &[u8])
    ensures <[u8] as vstd::std_specs::cmp::PartialEqSpec<[u8]>>::obeys_eq_spec(), #[trigger] <[u8] as vstd::std_specs::cmp::PartialEqSpec<[u8]>>::eq_spec(a, b) == (a@ == b@);
  /// std: `impl PartialEq for str` compares the bytes
  pub broadcast axiom fn axiom_str_eq(a: &str, b: &str)
    ensures <str as vstd::std_specs::cmp::PartialEqSpec<str>>::obeys_eq_spec(), #[trigger] <str as vstd::std_specs::cmp::PartialEqSpec<str>>::eq_spec(a, b) == (a.spec_bytes() == b.spec_bytes());
  pub broadcast axiom fn axiom_str_len_bound(s: &str)
    ensures #[trigger] s.spec_bytes().len() <= usize::MAX;
}
/// std: "Makes a mutable reference into the given Rc. If there are other Rc pointers to the same allocation, then
/// make_mut will clone the inner value to a new allocation" - the value seen through the Rc is unchanged, and the
/// returned reference is the Rc's content from then on.
#[verifier::allow(undeclared_external_trait)]
pub assume_specification<T: ?Sized + std::clone::CloneToUninit, A: std::alloc::Allocator + Clone>[std::rc::Rc::<T, A>::make_mut](x: &mut Rc<T, A>) -> (r: &mut T)
  ensures &*r == &**old(x), &**final(x) == &*final(r);
pub assume_specification<T, A: std::alloc::Allocator>[std::vec::Vec::<T, A>::reserve_exact](v: &mut Vec<T, A>, n: usize)
  ensures final(v)@ == old(v)@;
/// str::get: Some(the sub-slice) exactly when the range is in bounds on char boundaries (vstd's own predicates for `&s[r]`)
pub assume_specification<I: SliceIndex<str>>[str::get::<I>](s: &str, r: I) -> (out: Option<&<I as SliceIndex<str>>::Output>)
  ensures match out { Some(o) => r.in_bounds(s) && r.index_postcondition(s, o), None => !r.in_bounds(s) };
/// the two unchecked accessors: their documented safety precondition is the `requires` (C19)
pub assume_specification<T, I: SliceIndex<[T]>>[<[T]>::get_unchecked::<I>](s: &[T], r: I) -> (out: &<I as SliceIndex<[T]>>::Output)
  requires r.in_bounds(s)
  ensures r.index_postcondition(s, out);
pub assume_specification<I: SliceIndex<str>>[str::get_unchecked::<I>](s: &str, r: I) -> (out: &<I as SliceIndex<str>>::Output)
  requires r.in_bounds(s)
  ensures r.index_postcondition(s, out);
pub assume_specification<T, E, F: FnOnce(E) -> T>[Result::<T, E>::unwrap_or_else](r: Result<T, E>, f: F) -> (out: T)
  requires r is Err ==> f.requires((r->Err_0,)),
  ensures r is Ok ==> out == r->Ok_0, r is Err ==> f.ensures((r->Err_0,), out);
pub open spec fn ord_rank(o: Ordering) -> int { match o { Ordering::Less => 0, Ordering::Equal => 1, Ordering::Greater => 2 } }
/// std's documented contract: on a slice partitioned by `f` (Less.. Equal.. Greater..), Ok(i) is *a* match, Err(i) the
/// insertion point.  `last_match`: the pinned std (library/core/src/slice/mod.rs, 1.83) moves `base` to `mid` whenever
/// f(mid) != Greater, so among several Equal elements it returns the LAST one; Rope::get_byte relies on this when a rope
/// starts with an empty piece (two pieces at offset 0) - stated as an assumption, see DESIGN.
pub assume_specification<'a, T, F: FnMut(&'a T) -> Ordering>[<[T]>::binary_search_by::<'a, F>](s: &'a [T], f: F) -> (r: Result<usize, usize>)
  requires forall|i: int| 0 <= i < s@.len() ==> f.requires((&#[trigger] s@[i],)),
    forall|i: int, j: int, oi: Ordering, oj: Ordering| 0 <= i < j < s@.len() && f.ensures((&s@[i],), oi) && f.ensures((&s@[j],), oj) ==> ord_rank(oi) <= ord_rank(oj),
  ensures match r {
    Ok(i) => i < s@.len() && f.ensures((&s@[i as int],), Ordering::Equal)
      && (forall|j: int| i < j < s@.len() ==> f.ensures((&#[trigger] s@[j],), Ordering::Greater)),
    Err(i) => i <= s@.len() && (forall|j: int| 0 <= j < i ==> f.ensures((&#[trigger] s@[j],), Ordering::Less)) && (forall|j: int| i <= j < s@.len() ==> f.ensures((&#[trigger] s@[j],), Ordering::Greater)),
  };

pub open spec fn cow_bytes(c: &Cow<[u8]>) -> Seq<u8> { match c { Cow::Borrowed(b) => b@, Cow::Owned(v) => v@ } }
/// the text a piece list denotes
pub open spec fn chunks_bytes(d: Seq<(&str, usize)>) -> Seq<u8> decreases d.len() {
  if d.len() == 0 { Seq::<u8>::empty() } else { chunks_bytes(d.drop_last()) + d.last().0.spec_bytes() }
}
/// representation invariant of the multi-piece form: every piece records the offset at which it starts
#[verifier::opaque]
pub open spec fn chunks_wf(d: Seq<(&str, usize)>) -> bool {
  forall|i: int| 0 <= i < d.len() ==> (#[trigger] d[i]).1 == chunks_bytes(d.take(i)).len()
}
pub proof fn lemma_chunks_push(d: Seq<(&str, usize)>, x: (&str, usize))
  requires chunks_wf(d), x.1 == chunks_bytes(d).len()
  ensures chunks_wf(d.push(x)), chunks_bytes(d.push(x)) == chunks_bytes(d) + x.0.spec_bytes()
{
  reveal(chunks_wf);
  let e = d.push(x);
  assert(e.drop_last() =~= d);
  assert forall|i: int| 0 <= i < e.len() implies (#[trigger] e[i]).1 == chunks_bytes(e.take(i)).len() by {
    if i < d.len() { assert(e.take(i) =~= d.take(i)); } else { assert(e.take(i) =~= d); }
  }
}
pub proof fn lemma_chunks_take(d: Seq<(&str, usize)>, i: int)
  requires 0 <= i < d.len()
  ensures chunks_bytes(d.take(i + 1)) == chunks_bytes(d.take(i)) + d[i].0.spec_bytes(),
    chunks_bytes(d.take(i + 1)).len() <= chunks_bytes(d).len(),
  decreases d.len() - i
{
  assert(d.take(i + 1).drop_last() =~= d.take(i));
  if i + 1 == d.len() { assert(d.take(i + 1) =~= d); } else { lemma_chunks_take(d, i + 1); }
}
pub open spec fn cmp3(a: usize, b: usize) -> Ordering { if a < b { Ordering::Less } else if a == b { Ordering::Equal } else { Ordering::Greater } }
pub open spec fn clen(d: Seq<(&str, usize)>, i: int) -> int { d[i].0.spec_bytes().len() as int }
/// lengths of prefixes are monotone
pub proof fn lemma_chunks_mono(d: Seq<(&str, usize)>, a: int, b: int)
  requires 0 <= a <= b <= d.len()
  ensures chunks_bytes(d.take(a)).len() <= chunks_bytes(d.take(b)).len()
  decreases b - a
{
  if a < b { lemma_chunks_take(d, b - 1); lemma_chunks_mono(d, a, b - 1); }
}
/// the text of the first i pieces is a prefix of the whole text
pub proof fn lemma_chunks_prefix(d: Seq<(&str, usize)>, i: int)
  requires 0 <= i <= d.len()
  ensures chunks_bytes(d.take(i)).len() <= chunks_bytes(d).len(),
    chunks_bytes(d).subrange(0, chunks_bytes(d.take(i)).len() as int) == chunks_bytes(d.take(i)),
  decreases d.len() - i
{
  if i == d.len() {
    assert(d.take(i) =~= d);
    assert(chunks_bytes(d).subrange(0, chunks_bytes(d).len() as int) =~= chunks_bytes(d));
  } else {
    lemma_chunks_take(d, i);
    lemma_chunks_prefix(d, i + 1);
    let p = chunks_bytes(d.take(i));
    let q = chunks_bytes(d.take(i + 1));
    assert(q.subrange(0, p.len() as int) =~= p);
    assert(chunks_bytes(d).subrange(0, p.len() as int) =~= chunks_bytes(d).subrange(0, q.len() as int).subrange(0, p.len() as int));
  }
}
/// piece i occupies [start_i, start_i + len_i) of the text; pieces are laid out in order
pub proof fn lemma_chunk_at(d: Seq<(&str, usize)>, i: int)
  requires chunks_wf(d), 0 <= i < d.len()
  ensures d[i].1 + clen(d, i) <= chunks_bytes(d).len(),
    chunks_bytes(d).subrange(d[i].1 as int, d[i].1 + clen(d, i)) == d[i].0.spec_bytes(),
    i + 1 < d.len() ==> d[i + 1].1 == d[i].1 + clen(d, i),
    i + 1 == d.len() ==> chunks_bytes(d).len() == d[i].1 + clen(d, i),
    i == 0 ==> d[i].1 == 0,
{
  reveal(chunks_wf);
  lemma_chunks_take(d, i);
  lemma_chunks_prefix(d, i + 1);
  let p = chunks_bytes(d.take(i));
  let q = chunks_bytes(d.take(i + 1));
  assert(q.subrange(p.len() as int, q.len() as int) =~= d[i].0.spec_bytes());
  assert(chunks_bytes(d).subrange(p.len() as int, q.len() as int) =~= chunks_bytes(d).subrange(0, q.len() as int).subrange(p.len() as int, q.len() as int));
  if i + 1 == d.len() { assert(d.take(i + 1) =~= d); }
  if i == 0 { assert(d.take(0) =~= Seq::<(&str, usize)>::empty()); }
}
pub proof fn lemma_chunks_order(d: Seq<(&str, usize)>, i: int, j: int)
  requires chunks_wf(d), 0 <= i < j < d.len()
  ensures d[i].1 + clen(d, i) <= d[j].1
{
  reveal(chunks_wf);
  lemma_chunks_take(d, i);
  lemma_chunks_mono(d, i + 1, j);
}
pub proof fn lemma_chunks_wf_empty()
  ensures chunks_wf(Seq::<(&str, usize)>::empty())
{
  reveal(chunks_wf);
}
// ---- UTF-8: char boundaries of a piece are char boundaries of the whole text, and vice versa ----
pub proof fn lemma_str_valid(s: &str)
  ensures valid_utf8(s.spec_bytes())
{
  broadcast use {vstd::string::group_string_axioms, vstd::utf8::group_utf8_lib};
  encode_utf8_valid_utf8(s@);
  assert(encode_utf8(s@) == s.spec_bytes());
}
pub proof fn lemma_chunks_valid(d: Seq<(&str, usize)>)
  ensures valid_utf8(chunks_bytes(d))
  decreases d.len()
{
  if d.len() == 0 {
    let e = Seq::<u8>::empty();
    encode_utf8_valid_utf8(Seq::<char>::empty());
    assert(encode_utf8(Seq::<char>::empty()) =~= e) by { broadcast use vstd::utf8::group_utf8_lib; }
  } else {
    lemma_chunks_valid(d.drop_last());
    lemma_str_valid(d.last().0);
    valid_utf8_concat(chunks_bytes(d.drop_last()), d.last().0.spec_bytes());
  }
}
pub proof fn lemma_chunks_split(d: Seq<(&str, usize)>, k: int)
  requires 0 <= k <= d.len()
  ensures chunks_bytes(d) == chunks_bytes(d.take(k)) + chunks_bytes(d.skip(k))
  decreases d.len()
{
  if k == d.len() {
    assert(d.take(k) =~= d);
    assert(d.skip(k) =~= Seq::<(&str, usize)>::empty());
    assert(chunks_bytes(d) =~= chunks_bytes(d) + Seq::<u8>::empty());
  } else {
    let dl = d.drop_last();
    lemma_chunks_split(dl, k);
    assert(dl.take(k) =~= d.take(k));
    assert(dl.skip(k) =~= d.skip(k).drop_last());
    assert(d.skip(k).last() == d.last());
    assert(chunks_bytes(d) =~= chunks_bytes(d.take(k)) + (chunks_bytes(d.skip(k).drop_last()) + d.last().0.spec_bytes()));
  }
}
/// where a piece starts is a char boundary of the whole text
pub proof fn lemma_prefix_boundary(d: Seq<(&str, usize)>, k: int)
  requires 0 <= k <= d.len()
  ensures is_char_boundary(chunks_bytes(d), chunks_bytes(d.take(k)).len() as int)
{
  let b = chunks_bytes(d);
  let p = chunks_bytes(d.take(k));
  let q = chunks_bytes(d.skip(k));
  lemma_chunks_split(d, k);
  lemma_chunks_valid(d);
  lemma_chunks_valid(d.skip(k));
  is_char_boundary_start_end_of_seq(b);
  if p.len() > 0 && q.len() > 0 {
    is_char_boundary_start_end_of_seq(q);
    is_char_boundary_iff_not_is_continuation_byte(q, 0);
    assert(b[p.len() as int] == q[0]);
    is_char_boundary_iff_not_is_continuation_byte(b, p.len() as int);
  } else if q.len() == 0 {
    assert(b =~= p);
  }
}
/// offset o of piece c is a char boundary of the piece exactly when start_c + o is one of the whole text
pub proof fn lemma_boundary_transfer(d: Seq<(&str, usize)>, c: int, o: int)
  requires chunks_wf(d), 0 <= c < d.len(), 0 <= o <= clen(d, c)
  ensures is_char_boundary(d[c].0.spec_bytes(), o) == is_char_boundary(chunks_bytes(d), d[c].1 + o)
{
  let b = chunks_bytes(d);
  let s = d[c].0.spec_bytes();
  lemma_chunk_at(d, c);
  lemma_str_valid(d[c].0);
  lemma_chunks_valid(d);
  is_char_boundary_start_end_of_seq(s);
  if o == 0 {
    reveal(chunks_wf);
    lemma_prefix_boundary(d, c);
  } else if o == clen(d, c) {
    reveal(chunks_wf);
    lemma_chunks_take(d, c);
    lemma_prefix_boundary(d, c + 1);
  } else {
    is_char_boundary_iff_not_is_continuation_byte(s, o);
    is_char_boundary_iff_not_is_continuation_byte(b, d[c].1 + o);
    assert(b[d[c].1 + o] == b.subrange(d[c].1 as int, d[c].1 + clen(d, c))[o]);
  }
}
/// pieces are laid out in order: starts and ends are monotone, every piece lies inside the text
pub proof fn lemma_chunks_sorted(d: Seq<(&str, usize)>)
  requires chunks_wf(d)
  ensures forall|i: int, j: int| 0 <= i < j < d.len() ==> (#[trigger] d[i]).1 <= (#[trigger] d[j]).1 && d[i].1 + clen(d, i) <= d[j].1 + clen(d, j),
    forall|i: int| 0 <= i < d.len() ==> (#[trigger] d[i]).1 + clen(d, i) <= chunks_bytes(d).len(),
{
  assert forall|i: int, j: int| 0 <= i < j < d.len() implies (#[trigger] d[i]).1 <= (#[trigger] d[j]).1 && d[i].1 + clen(d, i) <= d[j].1 + clen(d, j) by { lemma_chunks_order(d, i, j); }
  assert forall|i: int| 0 <= i < d.len() implies (#[trigger] d[i]).1 + clen(d, i) <= chunks_bytes(d).len() by { lemma_chunk_at(d, i); }
}
/// the arithmetic half of lemma_chunk_at (no byte-sequence facts: cheaper for the solver)
pub proof fn lemma_chunk_pos(d: Seq<(&str, usize)>, i: int)
  requires chunks_wf(d), 0 <= i < d.len()
  ensures d[i].1 + clen(d, i) <= chunks_bytes(d).len(),
    i + 1 < d.len() ==> d[i + 1].1 == d[i].1 + clen(d, i),
    i + 1 == d.len() ==> chunks_bytes(d).len() == d[i].1 + clen(d, i),
    i == 0 ==> d[i].1 == 0,
{
  lemma_chunk_at(d, i);
}
// ---- packaged steps of the slicing argument (keeps the byte-sequence reasoning out of the function's own query) ----
pub open spec fn is_cb(b: Seq<u8>, i: int) -> bool { is_char_boundary(b, i) }
/// a range inside piece c: slicing the piece is slicing the text, and the piece's char boundaries are the text's
pub proof fn lemma_in_piece(d: Seq<(&str, usize)>, c: int, a: int, b: int)
  requires chunks_wf(d), 0 <= c < d.len(), d[c].1 <= a <= b <= d[c].1 + clen(d, c)
  ensures chunks_bytes(d).subrange(a, b) == d[c].0.spec_bytes().subrange(a - d[c].1, b - d[c].1),
    is_cb(chunks_bytes(d), a) == is_cb(d[c].0.spec_bytes(), a - d[c].1),
    is_cb(chunks_bytes(d), b) == is_cb(d[c].0.spec_bytes(), b - d[c].1),
    is_cb(d[c].0.spec_bytes(), 0), is_cb(d[c].0.spec_bytes(), clen(d, c)),
    b <= chunks_bytes(d).len(),
{
  lemma_chunk_at(d, c);
  lemma_boundary_transfer(d, c, a - d[c].1);
  lemma_boundary_transfer(d, c, b - d[c].1);
  lemma_str_valid(d[c].0);
  is_char_boundary_start_end_of_seq(d[c].0.spec_bytes());
  let s = d[c].0.spec_bytes();
  let bb = chunks_bytes(d);
  assert(bb.subrange(a, b) =~= bb.subrange(d[c].1 as int, d[c].1 + clen(d, c)).subrange(a - d[c].1, b - d[c].1));
}
/// gluing: text[a..m) ++ text[m..b) == text[a..b)
pub proof fn lemma_glue(t: Seq<u8>, a: int, m: int, b: int)
  requires 0 <= a <= m <= b <= t.len()
  ensures t.subrange(a, m) + t.subrange(m, b) == t.subrange(a, b), t.subrange(a, a) == Seq::<u8>::empty()
{
  assert(t.subrange(a, m) + t.subrange(m, b) =~= t.subrange(a, b));
  assert(t.subrange(a, a) =~= Seq::<u8>::empty());
}
/// the empty text and the empty range
pub proof fn lemma_empty_range(d: Seq<(&str, usize)>, c: int)
  requires chunks_wf(d), 0 <= c < d.len()
  ensures is_cb(chunks_bytes(d), d[c].1 as int), d[c].1 <= chunks_bytes(d).len()
{
  lemma_in_piece(d, c, d[c].1 as int, d[c].1 as int);
}
pub proof fn lemma_no_piece(d: Seq<(&str, usize)>)
  requires d.len() == 0
  ensures chunks_bytes(d).len() == 0, is_cb(chunks_bytes(d), 0)
{
  lemma_chunks_valid(d);
  is_char_boundary_start_end_of_seq(chunks_bytes(d));
}
pub proof fn lemma_str_bytes(s: &str)
  ensures encode_utf8(s@) == s.spec_bytes()
{
  broadcast use {vstd::string::group_string_axioms, vstd::utf8::group_utf8_lib};
}
pub proof fn lemma_empty_string(c: Seq<char>)
  requires c.len() == 0
  ensures encode_utf8(c) == Seq::<u8>::empty()
{
  broadcast use vstd::utf8::group_utf8_lib;
  assert(c =~= Seq::<char>::empty());
  assert(encode_utf8(Seq::<char>::empty()) =~= Seq::<u8>::empty());
}
