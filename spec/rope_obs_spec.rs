// ---- observers: prefix / suffix / emptiness of the denoted text (C16) ----
pub open spec fn is_prefix(p: Seq<u8>, t: Seq<u8>) -> bool { p.len() <= t.len() && t.subrange(0, p.len() as int) == p }
/// the denoted text as characters (the pieces' chars in order); `lemma_chunks_chars` ties it to `chunks_bytes`
pub open spec fn chunks_chars(d: Seq<(&str, usize)>) -> Seq<char> decreases d.len() {
  if d.len() == 0 { Seq::<char>::empty() } else { chunks_chars(d.drop_last()) + d.last().0@ }
}
pub proof fn lemma_chunks_chars(d: Seq<(&str, usize)>)
  ensures encode_utf8(chunks_chars(d)) == chunks_bytes(d)
  decreases d.len()
{
  if d.len() == 0 { lemma_empty_string(Seq::<char>::empty()); }
  else { lemma_chunks_chars(d.drop_last()); encode_utf8_concat(chunks_chars(d.drop_last()), d.last().0@); lemma_str_bytes(d.last().0); }
}
pub proof fn lemma_str_empty(s: &str)
  ensures (s.spec_bytes().len() == 0) == (s@.len() == 0)
{
  broadcast use {vstd::string::group_string_axioms, vstd::utf8::group_utf8_lib};
  lemma_str_bytes(s);
  if s@.len() == 0 { lemma_empty_string(s@); }
  else if s.spec_bytes().len() == 0 {
    encode_utf8_decode_utf8(s@);
    assert(s.spec_bytes() =~= Seq::<u8>::empty());
    lemma_empty_string(Seq::<char>::empty());
    encode_utf8_decode_utf8(Seq::<char>::empty());
  }
}
pub proof fn lemma_chunks_first(d: Seq<(&str, usize)>)
  requires d.len() > 0
  ensures chunks_bytes(d) == d[0].0.spec_bytes() + chunks_bytes(d.skip(1))
{
  lemma_chunks_split(d, 1);
  assert(d.take(1) =~= Seq::<(&str, usize)>::empty().push(d[0]));
  assert(d.take(1).drop_last() =~= Seq::<(&str, usize)>::empty());
  assert(d.take(1).last() == d[0]);
  assert(chunks_bytes(d.take(1)) == chunks_bytes(d.take(1).drop_last()) + d.take(1).last().0.spec_bytes());
  assert(chunks_bytes(Seq::<(&str, usize)>::empty()) =~= Seq::<u8>::empty());
  assert(chunks_bytes(d.take(1)) =~= d[0].0.spec_bytes());
}
pub proof fn lemma_chunks_skip_step(d: Seq<(&str, usize)>, i: int)
  requires 0 <= i < d.len()
  ensures chunks_bytes(d.skip(i)) == d[i].0.spec_bytes() + chunks_bytes(d.skip(i + 1))
{
  lemma_chunks_first(d.skip(i));
  assert(d.skip(i).skip(1) =~= d.skip(i + 1));
}
/// trailing empty pieces contribute nothing
pub proof fn lemma_chunks_chars_take(d: Seq<(&str, usize)>, i: int)
  requires 0 <= i < d.len()
  ensures chunks_chars(d.take(i + 1)) == chunks_chars(d.take(i)) + d[i].0@
{
  assert(d.take(i + 1).drop_last() =~= d.take(i));
}
pub proof fn lemma_valid_suffix(b: Seq<u8>, n: int)
  requires valid_utf8(b), 0 <= n <= b.len(), valid_utf8(b.subrange(0, n))
  ensures valid_utf8(b.subrange(n, b.len() as int))
  decreases n
{
  if n == 0 { assert(b.subrange(0, b.len() as int) =~= b); }
  else {
    let p = b.subrange(0, n);
    reveal_with_fuel(valid_utf8, 2);
    let k = length_of_first_scalar(p) as int;
    assert(p[0] == b[0]);
    assert(length_of_first_scalar(b) == k);
    let p2 = pop_first_scalar(p);
    let b2 = pop_first_scalar(b);
    assert(p2 =~= p.subrange(k, n));
    assert(b2 =~= b.subrange(k, b.len() as int));
    assert(b2.subrange(0, n - k) =~= p2);
    lemma_valid_suffix(b2, n - k);
    assert(b2.subrange(n - k, b2.len() as int) =~= b.subrange(n, b.len() as int));
  }
}
/// a valid UTF-8 prefix of a valid UTF-8 text ends on a char boundary of the text
pub proof fn lemma_valid_prefix_boundary(b: Seq<u8>, n: int)
  requires valid_utf8(b), 0 <= n <= b.len(), valid_utf8(b.subrange(0, n))
  ensures is_char_boundary(b, n)
{
  is_char_boundary_start_end_of_seq(b);
  if 0 < n < b.len() {
    lemma_valid_suffix(b, n);
    let q = b.subrange(n, b.len() as int);
    is_char_boundary_start_end_of_seq(q);
    is_char_boundary_iff_not_is_continuation_byte(q, 0);
    assert(b[n] == q[0]);
    is_char_boundary_iff_not_is_continuation_byte(b, n);
  }
}
pub proof fn lemma_str_prefix_boundary(t: &str, p: &str)
  requires is_prefix(p.spec_bytes(), t.spec_bytes())
  ensures is_char_boundary(t.spec_bytes(), p.spec_bytes().len() as int), is_char_boundary(t.spec_bytes(), t.spec_bytes().len() as int)
{
  lemma_str_valid(t); lemma_str_valid(p);
  is_char_boundary_start_end_of_seq(t.spec_bytes());
  lemma_valid_prefix_boundary(t.spec_bytes(), p.spec_bytes().len() as int);
}
pub proof fn lemma_prefix_strip(x: Seq<u8>, y: Seq<u8>, m: int)
  requires 0 <= m <= x.len(), m <= y.len(), x.subrange(0, m) == y.subrange(0, m)
  ensures is_prefix(x, y) == is_prefix(x.skip(m), y.skip(m))
{
  if is_prefix(x, y) {
    assert(y.skip(m).subrange(0, x.len() - m) =~= y.subrange(0, x.len() as int).skip(m));
  }
  if is_prefix(x.skip(m), y.skip(m)) {
    assert(y.subrange(0, x.len() as int) =~= y.subrange(0, m) + y.skip(m).subrange(0, x.len() - m));
    assert(x =~= x.subrange(0, m) + x.skip(m));
  }
}
pub proof fn lemma_prefix_mismatch(x: Seq<u8>, y: Seq<u8>, m: int)
  requires 0 <= m <= x.len(), m <= y.len(), x.subrange(0, m) != y.subrange(0, m)
  ensures !is_prefix(x, y)
{
  if is_prefix(x, y) { assert(y.subrange(0, x.len() as int).subrange(0, m) =~= y.subrange(0, m)); }
}
pub proof fn lemma_prefix_first(c: Seq<u8>, rest: Seq<u8>, y: Seq<u8>)
  ensures is_prefix(c + rest, y) ==> is_prefix(c, y),
    is_prefix(c, y) ==> (c + rest).subrange(0, c.len() as int) == y.subrange(0, c.len() as int),
    (c + rest).skip(c.len() as int) == rest,
{
  if is_prefix(c + rest, y) { assert(y.subrange(0, (c + rest).len() as int).subrange(0, c.len() as int) =~= y.subrange(0, c.len() as int)); assert((c + rest).subrange(0, c.len() as int) =~= c); }
  assert((c + rest).subrange(0, c.len() as int) =~= c);
  assert((c + rest).skip(c.len() as int) =~= rest);
}
pub proof fn lemma_prefix_either(x: Seq<u8>, c: Seq<u8>, rest: Seq<u8>)
  ensures is_prefix(x, c + rest) ==> is_prefix(x, c) || is_prefix(c, x),
    is_prefix(x, c) ==> is_prefix(x, c + rest),
{
  if is_prefix(x, c + rest) {
    if x.len() <= c.len() { assert((c + rest).subrange(0, x.len() as int) =~= c.subrange(0, x.len() as int)); }
    else { assert(x.subrange(0, c.len() as int) =~= (c + rest).subrange(0, x.len() as int).subrange(0, c.len() as int)); assert((c + rest).subrange(0, x.len() as int).subrange(0, c.len() as int) =~= c); }
  }
  if is_prefix(x, c) { assert((c + rest).subrange(0, x.len() as int) =~= c.subrange(0, x.len() as int)); }
}
/// std: "Returns true if the given pattern matches a prefix / suffix of this string slice"; for a `&str` pattern std
/// compares bytes (`haystack.as_bytes().starts_with(needle.as_bytes())`), for a `char` pattern the last char
/// `&s[r]`: vstd checks the bounds / char-boundary precondition through its trait-level Index spec; this exposes vstd's own postcondition
pub assume_specification<I: SliceIndex<str>>[<str as std::ops::Index<I>>::index](s: &str, r: I) -> (out: &<I as SliceIndex<str>>::Output)
  ensures r.index_postcondition(s, out);
#[verifier::prophetic]
pub open spec fn rem_chunks<'x, 'y>(it: std::slice::Iter<'x, (&'y str, usize)>) -> Seq<(&'y str, usize)> { it.remaining().map_values(|x: &(&str, usize)| *x) }
pub uninterp spec fn pat_suffix<P>(s: &str, p: P) -> bool;
pub uninterp spec fn pat_prefix<P>(s: &str, p: P) -> bool;
#[verifier::allow(undeclared_external_trait)]
pub assume_specification<P: std::str::pattern::Pattern>[str::ends_with::<P>](s: &str, p: P) -> (r: bool)
  where for<'x> P::Searcher<'x>: std::str::pattern::ReverseSearcher<'x>
  ensures r == pat_suffix(s, p);
#[verifier::allow(undeclared_external_trait)]
pub assume_specification<P: std::str::pattern::Pattern>[str::starts_with::<P>](s: &str, p: P) -> (r: bool)
  ensures r == pat_prefix(s, p);
pub broadcast axiom fn axiom_suffix_char(s: &str, c: char)
  ensures #[trigger] pat_suffix::<char>(s, c) == (s@.len() > 0 && s@.last() == c);
pub broadcast axiom fn axiom_prefix_str(s: &str, p: &str)
  ensures #[trigger] pat_prefix::<&str>(s, p) == is_prefix(p.spec_bytes(), s.spec_bytes());
pub broadcast axiom fn axiom_prefix_ref_str(s: &str, p: &&str)
  ensures #[trigger] pat_prefix::<&&str>(s, p) == is_prefix((*p).spec_bytes(), s.spec_bytes());
// ---- Rope == Rope: windows of two differently divided texts ----
pub proof fn lemma_window(d: Seq<(&str, usize)>, i: int, a: int, k: int)
  requires chunks_wf(d), 0 <= i < d.len(), 0 <= a, 0 <= k, a + k <= clen(d, i)
  ensures d[i].1 + a + k <= chunks_bytes(d).len(),
    chunks_bytes(d).subrange(d[i].1 + a, d[i].1 + a + k) == d[i].0.spec_bytes().subrange(a, a + k),
{
  lemma_chunk_at(d, i);
  let b = chunks_bytes(d);
  assert(b.subrange(d[i].1 + a, d[i].1 + a + k) =~= b.subrange(d[i].1 as int, d[i].1 + clen(d, i)).subrange(a, a + k));
}
pub proof fn lemma_eq_extend(x: Seq<u8>, y: Seq<u8>, p: int, k: int)
  requires 0 <= p, 0 <= k, p + k <= x.len(), p + k <= y.len(), x.subrange(0, p) == y.subrange(0, p)
  ensures x.subrange(p, p + k) == y.subrange(p, p + k) ==> x.subrange(0, p + k) == y.subrange(0, p + k),
    x.subrange(p, p + k) != y.subrange(p, p + k) ==> x != y,
{
  if x.subrange(p, p + k) == y.subrange(p, p + k) {
    assert(x.subrange(0, p + k) =~= x.subrange(0, p) + x.subrange(p, p + k));
    assert(y.subrange(0, p + k) =~= y.subrange(0, p) + y.subrange(p, p + k));
  }
}
pub proof fn lemma_single_chunk(s: &str)
  ensures chunks_wf(seq![(s, 0usize)]), chunks_bytes(seq![(s, 0usize)]) == s.spec_bytes()
{
  reveal(chunks_wf);
  let d = seq![(s, 0usize)];
  assert(d.drop_last() =~= Seq::<(&str, usize)>::empty());
  assert(d.last() == (s, 0usize));
  assert(chunks_bytes(Seq::<(&str, usize)>::empty()) =~= Seq::<u8>::empty());
  assert(chunks_bytes(d) == chunks_bytes(d.drop_last()) + d.last().0.spec_bytes());
  assert(chunks_bytes(d) =~= s.spec_bytes());
  assert(d.take(0) =~= Seq::<(&str, usize)>::empty());
}
